"""C07 - cell capacity, value ranges and read bounds are enforced.

Engine A on the real Builder / Slice / TvmBitarray / Cell code.  Contents and stored values are symbolic; fill levels,
widths, reference counts and read lengths are enumerated at the capacity boundaries (read lengths are a symbolic
integer concretised by complete solver-driven enumeration in h_read_sym).
"""
from sx.api import *
from specs.enc import *
from harness.C06 import parse_type, TVarUInt, TVarInt, TCoins
from pytoniq_core.boc import Builder, Cell, Slice, Address, ExternalAddress
from pytoniq_core.boc.tvm_bitarray import TvmBitarray
from bitarray import bitarray

PROPERTY = 'C07'


def _prefilled(ctx, fill, prerefs=0):
    b = Builder()
    pre = ctx.bitstr('pre', fill)
    if fill:
        b.store_bits(pre)
    for i in range(prerefs):
        b.store_ref(Cell.empty())
    return b, pre


def h_store_at_fill(ctx, fill, type_, prerefs=0, twin=None):
    """a store at fill level `fill` raises iff it does not fit; otherwise it appends exactly the encoding"""
    t = parse_type(type_)
    b, pre = _prefilled(ctx, fill, prerefs)
    v = t.make(ctx, 'v')
    enc = t.enc(v)                     # forks over the length classes of variable-length types
    need = len(enc)
    fits = fill + need <= (1024 if twin else 1023) and prerefs + t.refs <= 4
    try:
        t.store(b, v)
        raised = None
    except Exception as ex:            # any error is an acceptable refusal
        raised = ex
    kind = type_.rstrip('0123456789')
    ctx.require((raised is None) == fits, f'{kind}: refused exactly when it does not fit' + ('' if raised is None or not fits else f' [{type(raised).__name__}]'))
    if raised is None and fits:
        c = b.end_cell()
        ctx.require(c.bits.to01() == cat_bits(pre, enc), f'{kind}: appended exactly the encoding')
        ctx.require(len(c.refs) == prerefs + t.refs, f'{kind}: reference count')
    if raised is None:
        ctx.require(And(len(b.bits) <= 1023, len(b.refs) <= 4), 'capacity never exceeded')


def h_value_range(ctx, kind, width):
    """values over width+2 bits: the store raises exactly when the value does not fit (both directions)"""
    x = ctx.sint('x', width + 2)
    fits = And(x >= 0, x < (1 << width)) if kind == 'u' else And(x >= -(1 << (width - 1)), x < (1 << (width - 1)))
    b = Builder()
    try:
        (b.store_uint if kind == 'u' else b.store_int)(x, width)
        raised = False
    except Exception:
        raised = True
    ctx.require(Iff(raised, Not(fits)), f'{kind}N: rejected exactly when out of range')
    if not raised:
        ctx.require(b.end_cell().bits.to01() == bits_of_uint(x, width), f'{kind}N: stored bits')


def h_var_range(ctx, kind, lb):
    """variable-length integers: values beyond the largest length class are rejected, all others accepted"""
    maxlen = (1 << lb) - 1
    x = ctx.sint('x', 8 * maxlen + 3)
    if kind == 'vu':
        fits = And(x >= 0, x < (1 << (8 * maxlen)))
    else:
        fits = And(x >= -(1 << (8 * maxlen - 1)), x < (1 << (8 * maxlen - 1)))
    b = Builder()
    try:
        (b.store_var_uint if kind == 'vu' else b.store_var_int)(x, lb)
        raised = False
    except Exception:
        raised = True
    ctx.require(Iff(raised, Not(fits)), f'{kind}: rejected exactly when out of range')
    if not raised:
        s = b.end_cell().begin_parse()
        y = s.load_var_uint(lb) if kind == 'vu' else s.load_var_int(lb)
        ctx.require(y == x, f'{kind}: accepted value reads back')


def _mk_cell(ctx, name, nbits, nrefs):
    b = Builder().store_bits(ctx.bitstr(name, nbits)) if nbits else Builder()
    for i in range(nrefs):
        b.store_ref(Builder().store_uint(i, 3).end_cell())
    return b.end_cell()


def h_store_cell(ctx, fill, prerefs, nbits, nrefs, via, skip_bits=0, skip_refs=0):
    """store_cell / store_slice (also of a partly consumed slice): refused iff bits or refs do not fit"""
    b, pre = _prefilled(ctx, fill, prerefs)
    src = _mk_cell(ctx, 'src', nbits, nrefs)
    srcbits = src.bits.to01()
    if via == 'cell':
        rem_bits, rem_refs = nbits, nrefs
        op = lambda: b.store_cell(src)
        skip_bits = skip_refs = 0
    else:
        s = src.begin_parse()
        if skip_bits:
            s.skip_bits(skip_bits)
        for _ in range(skip_refs):
            s.load_ref()
        rem_bits, rem_refs = nbits - skip_bits, nrefs - skip_refs
        op = lambda: b.store_slice(s)
    fits = fill + rem_bits <= 1023 and prerefs + rem_refs <= 4
    ctx.known('store_slice_counts_consumed_refs', via == 'slice' and fits and prerefs + nrefs > 4)
    try:
        op()
        raised = None
    except Exception as ex:
        raised = ex
    ctx.require((raised is None) == fits, f'store_{via}: refused exactly when it does not fit')
    if raised is None and fits:
        c = b.end_cell()
        ctx.require(c.bits.to01() == cat_bits(pre, srcbits[skip_bits:]), f'store_{via}: appended the remaining bits')
        ctx.require(len(c.refs) == prerefs + rem_refs, f'store_{via}: appended the remaining refs')
        ok = True
        for i in range(rem_refs):
            ok = And(ok, c.refs[prerefs + i].hash == src.refs[skip_refs + i].hash)
        ctx.require(ok, f'store_{via}: the right references')
    if raised is None:
        ctx.require(And(len(b.bits) <= 1023, len(b.refs) <= 4), 'capacity never exceeded')


def h_snake_capacity(ctx, fill_bytes, prerefs, n):
    """store_snake_bytes spills into a reference; it can only be refused when a reference is needed and none is free"""
    b = Builder()
    if fill_bytes:
        b.store_bytes(ctx.bytes_('pre', fill_bytes))
    for i in range(prerefs):
        b.store_ref(Cell.empty())
    data = ctx.bytes_('data', n)
    needs_ref = n > 127 - fill_bytes
    fits = not (needs_ref and prerefs >= 4)
    try:
        b.store_snake_bytes(data)
        raised = False
    except Exception:
        raised = True
    ctx.require(raised == (not fits), 'snake: refused exactly when no reference is free for the continuation')
    if not raised:
        c = b.end_cell()
        ctx.require(And(len(c.bits) <= 1023, len(c.refs) <= 4), 'capacity never exceeded')
        s = c.begin_parse()
        s.skip_bits(8 * fill_bytes)
        for _ in range(prerefs):
            s.load_ref()
        ctx.require(s.load_snake_bytes() == data, 'snake: reads back')


def _chain(depth, top_bits):
    c = Builder().store_bits(top_bits).end_cell() if False else Cell.empty()
    for i in range(depth):
        c = Builder().store_uint(i & 1, 1).store_ref(c).end_cell()
    return c


def h_depth(ctx, depth):
    """a cell of depth 1023 can be built, depth 1024 cannot"""
    import sys
    x = ctx.bitstr('x', 9)
    sub = _chain(depth - 1, None)            # depth - 1
    ctx.require(sub.get_depth() == depth - 1, 'chain depth')
    b = Builder().store_bits(x).store_ref(sub)
    try:
        c = b.end_cell()
        raised = False
    except Exception:
        raised = True
    ctx.require(raised == (depth > 1023), 'depth: refused exactly above 1023')
    if not raised:
        ctx.require(c.get_depth() == depth, 'depth: reported depth')
        ctx.require(c.bits.to01() == x, 'depth: bits')


def _pruned(mask, hashes, depths):
    b = Builder(type_=1).store_uint(1, 8).store_uint(mask, 8)
    for h in hashes:
        b.store_bytes(h)
    for d in depths:
        b.store_uint(d, 16)
    return b.end_cell()


def h_depth_exotic(ctx, shape, twin=None):
    """the depth limit also holds when the depth comes from the depths DECLARED in pruned branches (symbolic 16-bit values):
    every cell built over them - directly, two levels up, next to a deep ordinary chain, at each significant level of a
    two-level mask - is refused exactly when one of its per-level depths would exceed 1023"""
    def build(fn):
        try:
            return fn(), False
        except Exception:
            return None, True
    lim = 1023 if twin is None else 1022
    if shape in ('direct', 'two_up', 'sibling'):
        d = ctx.uint('d', 16)
        pb = _pruned(1, [ctx.bytes_('h', 32)], [d])
        ctx.require(pb.get_depth(0) == d, 'pruned branch: level-0 depth is the declared depth')
        if shape == 'direct':
            c, raised = build(lambda: Builder().store_bits(ctx.bitstr('x', 3)).store_ref(pb).end_cell())
            want = d + 1
        elif shape == 'two_up':
            c, raised = build(lambda: Builder().store_ref(Builder().store_ref(pb).end_cell()).end_cell())
            want = d + 2
        else:
            side = _chain(1000, None)
            c, raised = build(lambda: Builder().store_ref(side).store_ref(pb).end_cell())
            want = Ite(d > 1000, d, 1000) + 1
        ctx.require(Iff(raised, want > lim), 'depth over a pruned branch: refused exactly above 1023')
        if not raised:
            ctx.require(c.get_depth(0) == want, 'depth over a pruned branch: reported level-0 depth')
            ctx.require(c.get_depth(1) == (2 if shape == 'two_up' else (1001 if shape == 'sibling' else 1)), 'depth over a pruned branch: level-1 depth')
    elif shape == 'mask3':
        d0, d1 = ctx.uint('d0', 16), ctx.uint('d1', 16)
        pb = _pruned(3, [ctx.bytes_('h0', 32), ctx.bytes_('h1', 32)], [d0, d1])
        c, raised = build(lambda: Builder().store_ref(pb).end_cell())
        ctx.require(Iff(raised, Or(d0 + 1 > lim, d1 + 1 > lim)), 'depth over a two-level pruned branch: refused exactly when a per-level depth exceeds 1023')
        if not raised:
            ctx.require(And(c.get_depth(0) == d0 + 1, c.get_depth(1) == d1 + 1, c.get_depth(2) == 1), 'depth over a two-level pruned branch: per-level depths')
    elif shape == 'mask2_under_proof':
        # an ordinary cell over a level-2 pruned branch, wrapped by a Merkle proof (which looks one level up)
        d = ctx.uint('d', 16)
        pb = _pruned(2, [ctx.bytes_('h', 32)], [d])
        c, raised = build(lambda: Builder().store_ref(pb).end_cell())
        ctx.require(Iff(raised, d + 1 > lim), 'depth over a level-2 pruned branch: refused exactly above 1023')
        if not raised:
            ctx.require(And(c.get_depth(0) == d + 1, c.get_depth(1) == d + 1, c.get_depth(2) == 1), 'depth over a level-2 pruned branch: per-level depths')


READS = {
    'uint': lambda s, n: s.load_uint(n),
    'int': lambda s, n: s.load_int(n),
    'bits': lambda s, n: s.load_bits(n).to01(),
    'skip': lambda s, n: s.skip_bits(n) and None,
}


def _spec_read(kind, bits, n):
    if kind == 'uint':
        return uint_of_bits(bits[:n])
    if kind == 'int':
        return sint_of_bits(bits[:n])
    if kind == 'bits':
        return bits[:n]
    return None


def _slice_over(ctx, r, plain):
    data = ctx.bitstr('d', r)
    if plain:
        c = Cell(bitarray(data) if r else bitarray(), [])
    else:
        c = Builder().store_bits(data).end_cell() if r else Cell.empty()
    return c.begin_parse(), data


def h_read(ctx, kind, r, n, plain=False, twin=None):
    """a consuming read of n bits from a slice with r remaining bits raises iff n > r, else returns the next bits"""
    s, data = _slice_over(ctx, r, plain)
    ctx.known('plain_bitarray_overread', plain and n > r)
    _do_read(ctx, kind, s, data, r + (1 if twin else 0), n)


def _do_read(ctx, kind, s, data, r, n):
    try:
        got = READS[kind](s, n)
        raised = False
    except Exception:
        raised = True
    if n > r or (n == 0 and kind == 'int'):
        ctx.require(raised or (n == 0), f'{kind}: over-read raises')
        return
    ctx.require(not raised, f'{kind}: a read that fits is not refused')
    if not raised:
        want = _spec_read(kind, data, n)
        if want is not None and n > 0:
            ctx.require(got == want, f'{kind}: returns exactly the next bits')
        ctx.require(s.bits.to01() == data[n:], f'{kind}: leaves the rest')


def h_read_sym(ctx, kind, r, nbits):
    """as h_read with the read length a symbolic integer (all values 0..2^nbits-1, solver-enumerated)"""
    s, data = _slice_over(ctx, r, False)
    n = ctx.uint('n', nbits)
    n = int(n)          # complete enumeration by solver-decided forks
    ctx.observe('n', n)
    _do_read(ctx, kind, s, data, r, n)
h_read_sym.max_paths = 5000


def h_read_bytes(ctx, r, n):
    s, data = _slice_over(ctx, r, False)
    try:
        got = s.load_bytes(n)
        raised = False
    except Exception:
        raised = True
    ctx.require(raised == (8 * n > r), 'bytes: raises exactly on over-read')
    if not raised and 8 * n <= r:
        ctx.require(got == bytes_of_bits(data[:8 * n]), 'bytes: returns exactly the next bytes')
        ctx.require(s.bits.to01() == data[8 * n:], 'bytes: leaves the rest')


def h_read_refs(ctx, nrefs, reads, via):
    """reading more references than remain raises"""
    c = _mk_cell(ctx, 'c', 3, nrefs)
    if via == 'maybe':
        c = Builder().store_bits('1' * reads).store_cell(c).end_cell()
    s = c.begin_parse()
    got = []
    raised = False
    try:
        for i in range(reads):
            got.append(s.load_ref() if via == 'ref' else s.load_maybe_ref())
    except Exception:
        raised = True
    ctx.require(raised == (reads > nrefs), f'{via}: raises exactly when no reference remains')
    ok = True
    for i, g in enumerate(got[:nrefs]):
        ok = And(ok, g is c.refs[i])
    ctx.require(ok, f'{via}: returns the references in order')
    if not raised:
        ctx.require(s.remaining_refs == nrefs - reads, f'{via}: remaining count')


def h_read_var(ctx, kind, avail_bytes):
    """a variable-length integer whose length prefix announces more bytes than remain raises"""
    lb = 4
    L = ctx.uint('L', lb)
    body = ctx.bitstr('body', 8 * avail_bytes)
    tail_ok = ctx.bitstr('pad', 3)
    bits = cat_bits(bits_of_uint(L, lb), body, tail_ok)
    s = Builder().store_bits(bits).end_cell().begin_parse()
    try:
        v = {'vu': lambda: s.load_var_uint(lb), 'vi': lambda: s.load_var_int(lb), 'coins': lambda: s.load_coins()}[kind]()
        raised = False
    except Exception:
        raised = True
    Lc = int(L)
    fits = 8 * Lc <= 8 * avail_bytes + 3
    ctx.require(raised == (not fits), f'{kind}: raises exactly when the announced length exceeds the data')
    if not raised and fits:
        rest = cat_bits(body, tail_ok)
        want = (sint_of_bits if kind == 'vi' else uint_of_bits)(rest[:8 * Lc]) if Lc else 0
        ctx.require(v == want, f'{kind}: value')
        ctx.require(s.bits.to01() == rest[8 * Lc:], f'{kind}: leaves the rest')


def h_read_addr(ctx, form, cut):
    """a truncated address raises; a complete one is consumed exactly"""
    if form == 'std':
        bits = enc_addr_std(ctx.sint('wc', 8), ctx.bytes_('acc', 32))
    elif form == 'any':
        bits = enc_addr_std(ctx.sint('wc', 8), ctx.bytes_('acc', 32), (7, ctx.uint('pfx', 7)))
    else:
        bits = enc_addr_extern(ctx.uint('x', 20), 20)
    full = len(bits)
    bits = bits[:full - cut] if cut else bits
    s = Builder().store_bits(bits).end_cell().begin_parse()
    try:
        s.load_address()
        raised = False
    except Exception:
        raised = True
    ctx.require(raised == (cut > 0), f'addr {form}: raises exactly when truncated')
    if not raised:
        ctx.require(s.remaining_bits == 0, f'addr {form}: consumed exactly')


# ------------------------------------------------------------------------------- instances
STORE_TYPES = ['u1', 'u8', 'i8', 'u64', 'u256', 'i257', 'bit', 'bool', 'bits1', 'bits9', 'bytes1', 'bytes4', 'str3',
               'mref0', 'mref1', 'dict0', 'dict1', 'ref', 'addr_none', 'addr_std', 'addr_ext9', 'svu', 'svi', 'coins24', 'addr_any5']


def instances(tier, seed):
    for t in STORE_TYPES:
        tt = parse_type(t)
        w = {'svu': 4 + 24, 'svi': 4 + 24, 'coins24': 4 + 24}.get(t)
        if w is None:
            import re
            w = {'bit': 1, 'bool': 1, 'mref0': 1, 'mref1': 1, 'dict0': 1, 'dict1': 1, 'ref': 0, 'addr_none': 2, 'addr_std': 267,
                 'addr_ext9': 20, 'addr_any5': 277, 'str3': 24, 'bytes1': 8, 'bytes4': 32}.get(t)
            if w is None:
                w = int(re.sub(r'\D', '', t))
        edge = 1023 - w
        fills = sorted({0, 1, max(0, edge - 1), edge, min(1023, edge + 1), 1023})
        if t in ('svu', 'svi', 'coins24'):
            fills = sorted({0, 1023 - 28, 1023 - 20, 1023 - 19, 1023 - 12, 1023 - 11, 1023 - 4, 1023 - 3, 1023})
        if tier == 'thorough' and t in ('u1', 'u8', 'i257', 'bits9', 'bytes1'):
            fills = list(range(0, 1024))
        for f in fills:
            if 0 <= f <= 1023:
                yield 'h_store_at_fill', dict(fill=f, type_=t)
        if tt.refs or t in ('mref0', 'dict0'):      # (an absent optional reference takes one bit and no reference: it fits beside 4 references)
            for pr in range(0, 5):
                yield 'h_store_at_fill', dict(fill=5, type_=t, prerefs=pr)
    for w in ([1, 8, 64, 256] if tier == 'quick' else [1, 2, 7, 8, 9, 31, 32, 33, 63, 64, 65, 127, 255, 256]):
        yield 'h_value_range', dict(kind='u', width=w)
        yield 'h_value_range', dict(kind='i', width=w + (w == 256))
    for lb in ((2, 3) if tier == 'quick' else (2, 3, 4)):
        yield 'h_var_range', dict(kind='vu', lb=lb)
        yield 'h_var_range', dict(kind='vi', lb=lb)
    # store_cell / store_slice
    for via in ('cell', 'slice'):
        for fill, nbits in ((0, 0), (0, 1023), (1, 1023), (1000, 23), (1000, 24), (5, 7)):
            for prerefs, nrefs in ((0, 0), (0, 4), (1, 3), (1, 4), (2, 3), (4, 0), (4, 1)):
                if tier == 'quick' and (fill, nbits) not in ((1000, 23), (1000, 24), (5, 7)) and (prerefs, nrefs) not in ((0, 4), (1, 4)):
                    continue
                yield 'h_store_cell', dict(fill=fill, prerefs=prerefs, nbits=nbits, nrefs=nrefs, via=via)
    for fill, nbits, sb in ((1000, 30, 7), (1000, 30, 6), (0, 10, 10)):
        for prerefs, nrefs, sr in ((2, 3, 1), (2, 3, 0), (3, 4, 3), (3, 4, 2), (4, 2, 2), (0, 4, 4)):
            yield 'h_store_cell', dict(fill=fill, prerefs=prerefs, nbits=nbits, nrefs=nrefs, via='slice', skip_bits=sb, skip_refs=sr)
    for fb, pr, n in ((0, 0, 127), (0, 0, 128), (0, 4, 127), (0, 4, 128), (0, 3, 128), (100, 4, 27), (100, 4, 28), (127, 4, 0), (127, 3, 1)):
        yield 'h_snake_capacity', dict(fill_bytes=fb, prerefs=pr, n=n)
    for d in (1, 2, 1022, 1023, 1024) if tier == 'thorough' else (1, 1023, 1024):
        yield 'h_depth', dict(depth=d)
    for shape in ('direct', 'two_up', 'sibling', 'mask3', 'mask2_under_proof'):
        yield 'h_depth_exotic', dict(shape=shape)
    # reads
    rs = (0, 1, 7, 8, 9, 64, 256, 257, 1022, 1023) if tier == 'quick' else (0, 1, 2, 7, 8, 9, 15, 16, 17, 63, 64, 65, 255, 256, 257, 511, 1000, 1022, 1023)
    for kind in READS:
        for r in rs:
            for n in sorted({0, 1, r - 1, r, r + 1, r + 7, r + 8, 1023, 1024}):
                if n >= 0 and not (kind in ('uint', 'int') and n > 1100):
                    yield 'h_read', dict(kind=kind, r=r, n=n)
        for r in (0, 5, 8, 13):
            for n in (r - 1, r, r + 1, 8, 16):
                if n >= 0:
                    yield 'h_read', dict(kind=kind, r=r, n=n, plain=True)
    for kind in ('uint', 'bits', 'skip'):
        for r in ((0, 5, 31) if tier == 'quick' else (0, 1, 5, 31, 100, 600)):
            yield 'h_read_sym', dict(kind=kind, r=r, nbits=6 if tier == 'quick' else 10)
    for r in (0, 7, 8, 9, 16, 1016, 1023):
        for n in (0, 1, 2, 127, 128):
            yield 'h_read_bytes', dict(r=r, n=n)
    for via in ('ref', 'maybe'):
        for nrefs in range(0, 5 if via == 'ref' else 4):
            for reads in (nrefs, nrefs + 1):
                if reads:
                    yield 'h_read_refs', dict(nrefs=nrefs, reads=reads, via=via)
    for kind in ('vu', 'vi', 'coins'):
        for a in (0, 1, 7, 14, 15):
            yield 'h_read_var', dict(kind=kind, avail_bytes=a)
    for form in ('std', 'any', 'ext'):
        for cut in (0, 1, 8, 9):
            yield 'h_read_addr', dict(form=form, cut=cut)


def twins(tier, seed):
    yield 'h_store_at_fill', dict(fill=1016, type_='u8', twin='cap1024')     # wrong oracle: capacity 1024
    yield 'h_read', dict(kind='uint', r=8, n=9, twin='r+1')                    # wrong oracle: one more bit remains
    yield 'h_depth_exotic', dict(shape='direct', twin='limit 1022')             # wrong oracle: depth limit 1022


BOUNDS = {
    'stores': 'every store type of the alphabet at the fill levels around its capacity edge (thorough: every fill level 0..1023 '
              'for u1,u8,i257,bits9,bytes1), all values of the stored operand and of the pre-filled bits',
    'value ranges': 'operands ranging over width+2 bits (so both in- and out-of-range values), widths at the boundaries',
    'references': '0..4 pre-stored references x every reference-adding operation',
    'depth': 'chains of depth 1022/1023/1024 (contents concrete except the top cell); cells built over pruned branches whose DECLARED '
             'depths are symbolic 16-bit values (directly, two levels up, next to a chain of depth 1000, masks 1, 2 and 3)',
    'reads': 'remaining lengths r and read lengths n at the boundaries; n fully symbolic over 6 (quick) / 10 (thorough) bits in h_read_sym',
}
OUTSIDE = ['operation sequences longer than: prefill + references + one operation', 'negative read lengths',
           'non-consuming preloads (the property speaks of consuming reads)']
STUBS = ['hashlib.sha256: injective uninterpreted function']
ASSUMPTIONS = ['a store "fits" iff its TL-B encoding (specs/enc.py) fits the remaining 1023 bits / 4 references']
