"""C03 - bag-of-cells serialisation round-trips for every DAG and option set.

Engine A on Cell.order/serialize/to_boc, Boc.__init__/deserialize_boc_header/deserialize_cell/deserialize and the
three one_from_boc entry points; CRC-32C by technique C (memoised uninterpreted function; C18 decides the real one).
All cell contents are symbolic; DAG shapes, option sets, input encodings and entry points are enumerated.
"""
from harness.boc_common import *
from pytoniq_core.boc import Builder, Cell, Slice

PROPERTY = 'C03'


def _root_for(ctx, shape, twins=(), exotic=None, m=1, lens=None):
    if exotic:
        from harness.C02 import SHAPES
        sc = warm(SHAPES[exotic](ctx, m))
        return sc, to_real(sc, via='ctor')
    cells = build_dag(ctx, shape, lens=lens, twins=twins)
    return cells[0], to_real(cells[0], via='builder')


def h_roundtrip(ctx, shape=None, opts=None, entry='cell', form='bytes', twins=(), exotic=None, m=1, twin=None, lens=None):
    sc, root = _root_for(ctx, shape, twins, exotic, m, lens)
    install_crc_stub(ctx)
    boc = root.to_boc(**opts)
    if twin == 'drop_last':
        boc = boc[:-1]
    data = boc if form == 'bytes' else boc.hex() if form == 'hex' else b64text(ctx, boc)
    if entry == 'cell':
        r = Cell.one_from_boc(data)
        lst = Cell.from_boc(data)
        ctx.require(len(lst) == 1 and lst[0].hash == root.hash, 'from_boc returns the single root')
    elif entry == 'slice':
        s = Slice.one_from_boc(data)
        ctx.require(s.bits.to01() == sc.bits, 'slice entry: data bits')
        ctx.require(s.remaining_refs == len(sc.refs), 'slice entry: reference count')
        r = s.to_cell()
    else:
        b = Builder.one_from_boc(data)
        ctx.require(b.bits.to01() == sc.bits, 'builder entry: data bits')
        r = b.end_cell()
    ctx.require(r.hash == root.hash, 'parsed root has the identical hash')
    ctx.require(r.hash == cell_hash(sc, 3), 'parsed root hash equals the specification hash')
    ctx.require(same_structure(ctx, r, sc, 'root'), 'identical structure: data bits, cell types and references, recursively')
    ctx.observe('len', len(boc))


def h_chain(ctx, depth, opts):
    """legal deep chains (the format allows depth 1023) serialise and parse back"""
    x = ctx.bitstr('x', 11)
    c = SC(ORD, '', [])
    for i in range(depth - 1):
        c = SC(ORD, format(i & 3, '02b'), [c])
    sc = warm(SC(ORD, x, [c]))
    root = to_real(sc, via='builder')
    install_crc_stub(ctx)
    boc = root.to_boc(**opts)
    r = Cell.one_from_boc(boc)
    ctx.require(r.hash == root.hash, 'deep chain: parsed root has the identical hash')
    ctx.require(r.bits.to01() == x, 'deep chain: root bits')
    ctx.require(r.get_depth() == depth, 'deep chain: depth')


def h_many(ctx, n, fanout, opts, payload_pad=0):
    """cell-count and payload-size boundaries: n distinct cells (concrete distinct filler; the root and one of its
    children symbolic)"""
    sym = SC(ORD, ctx.bitstr('x', 19), [])
    pending = []
    made = 2                       # root + sym
    while made < n:
        k = min(fanout, len(pending))
        if made + len(pending) - k + 1 < n and len(pending) < 3 * fanout:
            k = 0                  # grow the frontier first
        kids = [pending.pop() for _ in range(k)]
        pending.insert(0, SC(ORD, format(made, '020b'), kids))
        made += 1
    while len(pending) > 3:        # fold what is left into at most 3 children (these extra cells exceed n slightly)
        kids = [pending.pop() for _ in range(min(4, len(pending)))]
        pending.insert(0, SC(ORD, format(made, '020b') + '1', kids))
        made += 1
    sc = warm(SC(ORD, cat_bits(ctx.bitstr('r', 7), '1' * payload_pad), [sym] + pending))
    root = to_real(sc, via='builder')
    install_crc_stub(ctx)
    boc = root.to_boc(**opts)
    r = Cell.one_from_boc(boc)
    ctx.require(r.hash == root.hash, 'many cells: parsed root has the identical hash')
    ctx.observe('cells', len(topo(sc)))
    ctx.observe('len', len(boc))
    ctx.require(r.bits.to01() == sc.bits, 'many cells: root bits')
    ctx.require(r.refs[0].bits.to01() == sym.bits, 'many cells: the symbolic child is parsed back bit-exactly')
    cnt, stack, seen = 0, [r], set()
    while stack:
        c = stack.pop()
        if id(c) in seen:
            continue
        seen.add(id(c))
        cnt += 1
        stack.extend(c.refs)
    ctx.require(cnt == len(topo(sc)), 'many cells: number of distinct cells')


SMALL = None


def small_dags():
    global SMALL
    if SMALL is None:
        SMALL = []
        for n in (1, 2, 3, 4):
            SMALL += enum_dags(n, 3 if n <= 3 else 2)
    return SMALL


def instances(tier, seed):
    import random
    rnd = random.Random(seed)
    dags = small_dags()
    fam = family_dags()
    if tier == 'quick':
        pick = [d for i, d in enumerate(dags) if len(d) <= 2 or i % 6 == seed % 6]
    else:
        pick = dags
    for d in pick:
        for o in (OPTIONS if tier == 'thorough' else [OPTIONS[(len(str(d)) + seed) % 6], OPTIONS[5]]):
            yield 'h_roundtrip', dict(shape=d, opts=o)
    for name, d in fam.items():
        for o in OPTIONS:
            yield 'h_roundtrip', dict(shape=d, opts=o)
    # cells that MAY be equal: the de-duplication fork is explored both ways
    yield 'h_roundtrip', dict(shape=[[1, 2], [], []], opts=OPTIONS[0], twins=[[1, 2]])
    yield 'h_roundtrip', dict(shape=[[1, 2], [], []], opts=OPTIONS[5], twins=[[1, 2]])
    yield 'h_roundtrip', dict(shape=[[1, 2], [3], [4], [], []], opts=OPTIONS[3], twins=[[3, 4], [1, 2]])
    # entry points x input encodings
    for entry in ('cell', 'slice', 'builder'):
        for form in ('bytes', 'hex', 'base64'):
            for d in ([[1, 2], [2], []], [[]], fam['diamond2']):
                for o in (OPTIONS[0], OPTIONS[5]) if tier == 'quick' else OPTIONS:
                    yield 'h_roundtrip', dict(shape=d, opts=o, entry=entry, form=form)
    # data lengths at the byte and capacity boundaries (0, 7, 8, 9, 1015..1023 bits)
    for lens in ([1023, 1017], [1016, 1022], [1018, 1019], [1020, 1021], [1015, 0], [7, 8], [9, 1]):
        for o, entry, form in ((OPTIONS[0], 'cell', 'bytes'), (OPTIONS[5], 'slice', 'hex'), (OPTIONS[3], 'builder', 'base64')):
            yield 'h_roundtrip', dict(shape=[[1], []], opts=o, lens=lens, entry=entry, form=form)
    # exotic cells
    for ex, m in (('mproof_ord_pruned', 1), ('mproof_ord_pruned', 3), ('mupd', 1), ('library', 1), ('ord_over_library', 1),
                  ('ord_over_two_pruned', 5), ('mproof_mproof', 2)):
        for o in (OPTIONS[0], OPTIONS[3]) if tier == 'quick' else OPTIONS:
            yield 'h_roundtrip', dict(exotic=ex, m=m, opts=o, entry='cell')
    for depth in ((200, 990, 1000, 1023) if tier == 'thorough' else (300, 1023)):
        yield 'h_chain', dict(depth=depth, opts=OPTIONS[0])
    for n, fo, pad in ((255, 4, 0), (256, 4, 0), (257, 4, 0), (40, 1, 0)) + (((65535, 4, 0), (65536, 4, 0), (65537, 4, 0)) if tier == 'thorough' else ()):
        for o in (OPTIONS[0], OPTIONS[5]):
            yield 'h_many', dict(n=n, fanout=fo, opts=o, payload_pad=pad)


def twins(tier, seed):
    yield 'h_roundtrip', dict(shape=[[1], []], opts=OPTIONS[0], twin='drop_last')


INSTANCE_TIMEOUT = {'quick': 200, 'thorough': 1500}
BOUNDS = {
    'DAG shapes': 'every rooted DAG with <= 3 cells (out-degree <= 3) and with 4 cells (out-degree <= 2); families: chains to depth 8, '
                  'sharing diamonds, fans, repeated references; pairs of cells that may be equal; 7 exotic trees',
    'data lengths': 'small lengths in the DAG enumeration; 0, 1, 7, 8, 9 and 1015..1023 bits on a two-cell chain',
    'contents': 'all data bits of every cell symbolic (concrete distinct filler in the 255..257 / 65535..65537-cell cases and the deep chains)',
    'options': 'the 6 valid combinations (quick: two per small DAG, all six on the families)',
    'encodings/entry points': 'bytes, hex text, base64 text x Cell/Slice/Builder.one_from_boc',
    'deep chains': 'depth 300 and 1023 (quick); 200, 990, 1000, 1023 (thorough)',
}
OUTSIDE = ['DAGs of more than 4 cells with fully symbolic contents outside the families', 'tens of thousands of cells only with concrete filler']
STUBS = ['crc32c inside the BoC code: memoised uninterpreted function (C18 decides the real function)',
         'hashlib.sha256: injective uninterpreted function', 'base64/hex text: typed text ropes (decode(encode(x)) = x)']
ASSUMPTIONS = ['specs/cellspec.py for hashes']
