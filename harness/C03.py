"""C03 - bag-of-cells serialisation round-trips for every DAG and option set.

Engine A on Cell.order/serialize/to_boc, Boc.__init__/deserialize_boc_header/deserialize_cell/deserialize and the
three one_from_boc entry points; CRC-32C by technique C (memoised uninterpreted function; C18 decides the real one).
All cell contents are symbolic; DAG shapes, option sets, input encodings and entry points are enumerated.
"""
from harness.boc_common import *
from pytoniq_core.boc import Builder, Cell, Slice

PROPERTY = 'C03'


def _root_for(ctx, shape, twins=(), exotic=None, m=1, lens=None):
    if exotic:
        from harness.C02 import SHAPES
        sc = warm(SHAPES[exotic](ctx, m))
        return sc, to_real(sc, via='ctor')
    cells = build_dag(ctx, shape, lens=lens, twins=twins)
    return cells[0], to_real(cells[0], via='builder')


def h_roundtrip(ctx, shape=None, opts=None, entry='cell', form='bytes', twins=(), exotic=None, m=1, twin=None, lens=None):
    sc, root = _root_for(ctx, shape, twins, exotic, m, lens)
    install_crc_stub(ctx)
    boc = root.to_boc(**opts)
    if twin == 'drop_last':
        boc = boc[:-1]
    data = boc if form == 'bytes' else boc.hex() if form == 'hex' else b64text(ctx, boc)
    if entry == 'cell':
        r = Cell.one_from_boc(data)
        lst = Cell.from_boc(data)
        ctx.require(len(lst) == 1 and lst[0].hash == root.hash, 'from_boc returns the single root')
    elif entry == 'slice':
        s = Slice.one_from_boc(data)
        ctx.require(s.bits.to01() == sc.bits, 'slice entry: data bits')
        ctx.require(s.remaining_refs == len(sc.refs), 'slice entry: reference count')
        r = s.to_cell()
    else:
        b = Builder.one_from_boc(data)
        ctx.require(b.bits.to01() == sc.bits, 'builder entry: data bits')
        r = b.end_cell()
    ctx.require(r.hash == root.hash, 'parsed root has the identical hash')
    ctx.require(r.hash == cell_hash(sc, 3), 'parsed root hash equals the specification hash')
    ctx.require(same_structure(ctx, r, sc, 'root'), 'identical structure: data bits, cell types and references, recursively')
    ctx.observe('len', len(boc))


def h_chain(ctx, depth, opts):
    """legal deep chains (the format allows depth 1023) serialise and parse back"""
    x = ctx.bitstr('x', 11)
    c = SC(ORD, '', [])
    for i in range(depth - 1):
        c = SC(ORD, format(i & 3, '02b'), [c])
    sc = warm(SC(ORD, x, [c]))
    root = to_real(sc, via='builder')
    install_crc_stub(ctx)
    boc = root.to_boc(**opts)
    r = Cell.one_from_boc(boc)
    ctx.require(r.hash == root.hash, 'deep chain: parsed root has the identical hash')
    ctx.require(r.bits.to01() == x, 'deep chain: root bits')
    ctx.require(r.get_depth() == depth, 'deep chain: depth')


def many_dag(ctx, n, fanout, payload_pad=0):
    """n distinct cells (concrete distinct filler; the root and one of its children symbolic); returns (root spec cell, symbolic child)"""
    sym = SC(ORD, ctx.bitstr('x', 19), [])
    if n > 600:
        # many cells: a 4-ary heap of n - 2 distinct filler cells below the root (depth about log4 n; the frontier construction
        # below would grow chains deeper than the 1023 levels a cell may have)
        N = n - 2
        nodes = [None] * (N + 1)
        for i in range(N, 0, -1):
            kids = [nodes[j] for j in range(4 * i, min(4 * i + 4, N + 1))]
            nodes[i] = SC(ORD, format(i, '020b'), kids)
        return warm(SC(ORD, cat_bits(ctx.bitstr('r', 7), '1' * payload_pad), [sym] + [nodes[j] for j in range(1, min(4, N + 1))])), sym
    pending = []
    made = 2                       # root + sym
    while made < n:
        k = min(fanout, len(pending))
        if made + len(pending) - k + 1 < n and len(pending) < 3 * fanout:
            k = 0                  # grow the frontier first
        kids = [pending.pop() for _ in range(k)]
        pending.insert(0, SC(ORD, format(made, '020b'), kids))
        made += 1
    while len(pending) > 3:        # fold what is left into at most 3 children (these extra cells exceed n slightly)
        kids = [pending.pop() for _ in range(min(4, len(pending)))]
        pending.insert(0, SC(ORD, format(made, '020b') + '1', kids))
        made += 1
    return warm(SC(ORD, cat_bits(ctx.bitstr('r', 7), '1' * payload_pad), [sym] + pending)), sym


def exact_cells_dag(ctx, n):
    """exactly n distinct cells: a symbolic root over a chain of groups of up to 4 concrete leaves"""
    assert n >= 2
    leaves = [SC(ORD, format(i, '024b'), []) for i in range(n - 1)]
    # fold leaves into a 'comb': each inner cell takes 3 leaves + the rest of the comb; inner cells count too
    # simpler: a chain where every cell holds (i) distinct 24-bit data and (ii) a reference to the next: n cells, depth n-1 <= 1023
    if n - 1 <= 1000:
        c = None
        for i in range(n - 1):
            c = SC(ORD, format(i, '024b'), [c] if c is not None else [])
        return warm(SC(ORD, ctx.bitstr('r', 7), [c]))
    # wide: a 4-ary tree of distinct cells with exactly n nodes
    nodes = [None] * n
    for i in reversed(range(1, n)):
        kids = [nodes[j] for j in range(4 * i + 1, min(4 * i + 5, n))]
        nodes[i] = SC(ORD, format(i, '024b'), kids)
    return warm(SC(ORD, ctx.bitstr('r', 7), [nodes[j] for j in range(1, min(5, n))]))


def payload_chain(ctx, target):
    """a chain whose serialised cell data (descriptors + data + reference indices) is exactly `target` bytes"""
    for size in (1, 2, 3):
        # all cells but the last: 2 + d_i + size bytes; last: 2 + d_last.  root: 7 symbolic bits -> 1 data byte
        for ncells in range(2, 1000):
            if not (ncells < (1 << (8 * size)) and (size == 1 or ncells >= (1 << (8 * (size - 1))))):
                continue
            fixed = (2 + size) * (ncells - 1) + 2 + 1       # overheads + the root's single data byte
            rest = target - fixed
            if rest < 0 or rest > 127 * (ncells - 1):
                continue
            datas, left = [], rest
            for i in range(ncells - 1):
                d = min(127, left)
                datas.append(d)
                left -= d
            c = None
            for i, d in enumerate(reversed(datas)):
                bits = format((i * 2654435761) % (1 << 32), '032b') * 32
                c = SC(ORD, bits[:8 * d], [c] if c is not None else [])
            return warm(SC(ORD, ctx.bitstr('r', 7), [c]))
    raise ValueError(f'no chain for payload {target}')


def h_many(ctx, n, fanout, opts, payload_pad=0):
    """cell-count and payload-size boundaries: n distinct cells (concrete distinct filler; the root and one of its
    children symbolic)"""
    sc, sym = many_dag(ctx, n, fanout, payload_pad)
    root = to_real(sc, via='builder')
    install_crc_stub(ctx)
    boc = root.to_boc(**opts)
    r = Cell.one_from_boc(boc)
    ctx.require(r.hash == root.hash, 'many cells: parsed root has the identical hash')
    ctx.observe('cells', len(topo(sc)))
    ctx.observe('len', len(boc))
    ctx.require(r.bits.to01() == sc.bits, 'many cells: root bits')
    ctx.require(r.refs[0].bits.to01() == sym.bits, 'many cells: the symbolic child is parsed back bit-exactly')
    cnt, stack, seen = 0, [r], set()
    while stack:
        c = stack.pop()
        if id(c) in seen:
            continue
        seen.add(id(c))
        cnt += 1
        stack.extend(c.refs)
    ctx.require(cnt == len(topo(sc)), 'many cells: number of distinct cells')


def h_two_bags(ctx, opts1, opts2, order, strict=None):
    """the same cell objects take part in several bags: a shared sub-DAG X sits at different positions in the bag of
    root A = (X, P) and in the bag of root B = (Q, R, X) - every serialisation parses back to its own root, whatever
    was serialised before (per-cell state kept between to_boc calls would show here)"""
    leaf1, leaf2 = SC(ORD, ctx.bitstr('l1', 9), []), SC(ORD, ctx.bitstr('l2', 4), [])
    x = SC(ORD, ctx.bitstr('x', 13), [leaf1, leaf2, leaf1])
    p, q, r = SC(ORD, ctx.bitstr('p', 5), []), SC(ORD, ctx.bitstr('q', 6), [leaf2]), SC(ORD, ctx.bitstr('r', 3), [])
    a = warm(SC(ORD, ctx.bitstr('a', 8), [x, p]))
    b = warm(SC(ORD, ctx.bitstr('b', 8), [q, r, x]))
    if order.startswith('same'):
        # X is the first reference of both roots (same index in both bags); its child Y is pushed further back in the second bag
        # only, because B refers to Y as well.  With 'same_big' the second bag has more than 255 cells, so the width of the
        # reference indexes differs between the two bags as well
        y = SC(ORD, ctx.bitstr('y', 7), [])
        x = SC(ORD, ctx.bitstr('x', 13), [y])
        bkids = [y]
        if order == 'same_big':
            c = None
            for i in range(300):
                c = SC(ORD, format(i, '016b'), [c] if c is not None else [])
            bkids = [c]           # (Y keeps its index here: only the width of the indexes differs between the two bags)
        bb = SC(ORD, ctx.bitstr('q', 6), bkids)
        a = warm(SC(ORD, ctx.bitstr('a', 8), [x, p]))
        b = warm(SC(ORD, ctx.bitstr('b', 8), [x, bb]))
    real = {}

    def mk(sc):
        if id(sc) not in real:
            bl = Builder().store_bits(sc.bits)
            for ch in sc.refs:
                bl.store_ref(mk(ch))
            real[id(sc)] = bl.end_cell()
        return real[id(sc)]
    ra, rb, rx = mk(a), mk(b), mk(x)
    crc = install_crc_stub(ctx)
    plans = {'ab': [(ra, a, opts1), (rb, b, opts2), (ra, a, opts2)], 'ba': [(rb, b, opts1), (ra, a, opts2), (rb, b, opts1)],
             'xab': [(rx, x, opts1), (ra, a, opts1), (rb, b, opts2), (rx, x, opts2)]}
    plans['same'] = plans['same_big'] = [(ra, a, opts1), (rb, b, opts2), (ra, a, opts1), (rb, b, opts1)]
    plans['same_rev'] = [(rb, b, opts1), (ra, a, opts2), (rb, b, opts1)]
    if strict is not None:
        return plans[order], crc
    todo = plans[order]
    for root, sc, o in todo:
        boc = root.to_boc(**o)
        got = Cell.one_from_boc(boc)
        ctx.require(got.hash == cell_hash(sc, 3), 'several bags over shared cell objects: parsed root has the specification hash')
        ctx.require(same_structure(ctx, got, sc, 'root') if order != 'same_big' else got.refs[0].refs[0].bits.to01() == sc.refs[0].refs[0].bits,
                    'several bags over shared cell objects: identical structure')


SMALL = None


def small_dags():
    global SMALL
    if SMALL is None:
        SMALL = []
        for n in (1, 2, 3, 4):
            SMALL += enum_dags(n, 3 if n <= 3 else 2)
    return SMALL


def instances(tier, seed):
    import random
    rnd = random.Random(seed)
    dags = small_dags()
    fam = family_dags()
    if tier == 'quick':
        pick = [d for i, d in enumerate(dags) if len(d) <= 2 or i % 6 == seed % 6]
    else:
        pick = dags
    for d in pick:
        for o in (OPTIONS if tier == 'thorough' else [OPTIONS[(len(str(d)) + seed) % 6], OPTIONS[5]]):
            yield 'h_roundtrip', dict(shape=d, opts=o)
    for name, d in fam.items():
        for o in OPTIONS:
            yield 'h_roundtrip', dict(shape=d, opts=o)
    # cells that MAY be equal: the de-duplication fork is explored both ways
    yield 'h_roundtrip', dict(shape=[[1, 2], [], []], opts=OPTIONS[0], twins=[[1, 2]])
    yield 'h_roundtrip', dict(shape=[[1, 2], [], []], opts=OPTIONS[5], twins=[[1, 2]])
    yield 'h_roundtrip', dict(shape=[[1, 2], [3], [4], [], []], opts=OPTIONS[3], twins=[[3, 4], [1, 2]])
    for o in (OPTIONS[0], OPTIONS[5]):
        yield 'h_roundtrip', dict(shape=[[1, 2], [], [3], []], opts=o, twins=[[1, 3]])     # root -> [X1, P], P -> [X2]
        yield 'h_roundtrip', dict(shape=[[1, 2], [3], [], []], opts=o, twins=[[2, 3]])     # root -> [P, X1], P -> [X2]
        yield 'h_roundtrip', dict(shape=[[1, 2, 3], [], [4], [4], []], opts=o, twins=[[1, 4]])
    # entry points x input encodings
    for entry in ('cell', 'slice', 'builder'):
        for form in ('bytes', 'hex', 'base64'):
            for d in ([[1, 2], [2], []], [[]], fam['diamond2']):
                for o in (OPTIONS[0], OPTIONS[5]) if tier == 'quick' else OPTIONS:
                    yield 'h_roundtrip', dict(shape=d, opts=o, entry=entry, form=form)
    # data lengths at the byte and capacity boundaries (0, 7, 8, 9, 1015..1023 bits)
    for lens in ([1023, 1017], [1016, 1022], [1018, 1019], [1020, 1021], [1015, 0], [7, 8], [9, 1]):
        for o, entry, form in ((OPTIONS[0], 'cell', 'bytes'), (OPTIONS[5], 'slice', 'hex'), (OPTIONS[3], 'builder', 'base64')):
            yield 'h_roundtrip', dict(shape=[[1], []], opts=o, lens=lens, entry=entry, form=form)
    # maximal cells: 1015..1023 data bits together with 4 references, as the root and as an inner cell
    for n0 in (1023, 1017, 1016, 1020):
        for o, entry, form in ((OPTIONS[0], 'cell', 'bytes'), (OPTIONS[5], 'slice', 'hex')) if tier == 'quick' else [(o, 'cell', 'bytes') for o in OPTIONS]:
            yield 'h_roundtrip', dict(shape=[[1, 2, 3, 4], [], [], [], []], opts=o, lens=[n0, 3, 0, 9, 1022], entry=entry, form=form)
            yield 'h_roundtrip', dict(shape=[[1], [2, 3, 4, 5], [], [], [], []], opts=o, lens=[6, n0, 1, 1023, 8, 2], entry=entry, form=form)
    # the same cell objects in several bags
    for order in ('ab', 'ba', 'xab', 'same', 'same_rev', 'same_big'):
        for o1, o2 in ((OPTIONS[0], OPTIONS[0]), (OPTIONS[0], OPTIONS[5]), (OPTIONS[3], OPTIONS[1])):
            yield 'h_two_bags', dict(opts1=o1, opts2=o2, order=order)
    # exotic cells
    for ex, m in (('mproof_ord_pruned', 1), ('mproof_ord_pruned', 3), ('mupd', 1), ('library', 1), ('ord_over_library', 1),
                  ('ord_over_two_pruned', 5), ('mproof_mproof', 2)):
        for o in (OPTIONS[0], OPTIONS[3]) if tier == 'quick' else OPTIONS:
            yield 'h_roundtrip', dict(exotic=ex, m=m, opts=o, entry='cell')
    for depth in ((200, 990, 1000, 1023) if tier == 'thorough' else (300, 1023)):
        yield 'h_chain', dict(depth=depth, opts=OPTIONS[0])
    for n, fo, pad in ((255, 4, 0), (256, 4, 0), (257, 4, 0), (40, 1, 0)) + (((65535, 4, 0), (65536, 4, 0), (65537, 4, 0)) if tier == 'thorough' else ()):
        for o in (OPTIONS[0], OPTIONS[5]):
            if n > 60000 and n != 65536 and o is not OPTIONS[0]:
                continue          # (a 65 536-cell bag costs minutes: both option sets at 65 536 only)
            yield 'h_many', dict(n=n, fanout=fo, opts=o, payload_pad=pad)


def twins(tier, seed):
    yield 'h_roundtrip', dict(shape=[[1], []], opts=OPTIONS[0], twin='drop_last')


INSTANCE_TIMEOUT = {'quick': 200, 'thorough': 1500}
BOUNDS = {
    'DAG shapes': 'every rooted DAG with <= 3 cells (out-degree <= 3) and with 4 cells (out-degree <= 2); families: chains to depth 8, '
                  'sharing diamonds, fans, repeated references; pairs of cells that may be equal; 7 exotic trees',
    'data lengths': 'small lengths in the DAG enumeration; 0, 1, 7, 8, 9 and 1015..1023 bits on a two-cell chain',
    'contents': 'all data bits of every cell symbolic (concrete distinct filler in the 255..257 / 65535..65537-cell cases and the deep chains)',
    'options': 'the 6 valid combinations (quick: two per small DAG, all six on the families)',
    'encodings/entry points': 'bytes, hex text, base64 text x Cell/Slice/Builder.one_from_boc',
    'maximal cells': '1016, 1017, 1020, 1023 data bits with 4 references (root and inner cell)',
    'several bags': 'two roots sharing a sub-DAG, serialised in three orders with differing option sets',
    'deep chains': 'depth 300 and 1023 (quick); 200, 990, 1000, 1023 (thorough)',
}
OUTSIDE = ['DAGs of more than 4 cells with fully symbolic contents outside the families', 'tens of thousands of cells only with concrete filler']
STUBS = ['crc32c inside the BoC code: memoised uninterpreted function (C18 decides the real function)',
         'hashlib.sha256: injective uninterpreted function', 'base64/hex text: typed text ropes (decode(encode(x)) = x)']
ASSUMPTIONS = ['specs/cellspec.py for hashes']
