"""C11 - Merkle proof checks are complete and sound.

Engine A on check_proof, check_block_header_proof, check_account_proof (through Cell.from_boc, ShardStateUnsplit.deserialize,
the augmented dictionary parser).  All cell contents, expected hashes, mutations and substituted hashes are symbolic; tree
shapes, pruning choices and which cell is tampered with are enumerated.  With SHA-256 as an injective function the
obligations say exactly "no forgery short of a hash collision".
"""
import itertools
import sys

from sx.api import *
from sx import core as C
from specs.cellspec import *
from specs import dictspec as D
from specs.tlbspec import W, w_cc
from pytoniq_core.boc import Builder, Cell, Slice, Address
from pytoniq_core.tl.block import BlockIdExt

import importlib
importlib.import_module('pytoniq_core.proof.check_proof')
CP = sys.modules['pytoniq_core.proof.check_proof']

PROPERTY = 'C11'

TREES = {
    'pair': (7, [(3, []), (12, [])]),
    'chain3': (1, [(9, [(4, [])])]),
    'bushy': (5, [(2, [(8, []), (1, [])]), (16, [(3, [])])]),
    'wide': (0, [(1, []), (2, []), (3, []), (4, [])]),
}


def build_tree(ctx, spec, path='t', mut=None):
    """ordinary cells with symbolic contents; mut = (path, kind): that cell is tampered with"""
    n, kids = spec
    bits = ctx.bitstr(path, n) if n else ''
    children = [build_tree(ctx, k, f'{path}{i}', mut) for i, k in enumerate(kids)]
    if mut and mut[0] == path:
        kind = mut[1]
        if kind == 'flip' and n:
            d = ctx.bitstr('delta', n)
            ctx.assume(Not(d == '0' * n))
            bits = bits_of_uint(uint_of_bits(bits) ^ uint_of_bits(d), n)
        elif kind == 'longer':
            bits = cat_bits(bits, ctx.bitstr('more', 3))
        elif kind == 'shorter' and n:
            bits = bits[:-1]
        elif kind == 'addref':
            children = children + [SC(ORD, ctx.bitstr('newkid', 4), [])]
        elif kind == 'dropref' and children:
            children = children[:-1]
        elif kind == 'swaprefs' and len(children) >= 2:
            children = [children[1], children[0]] + children[2:]
    return SC(ORD, bits, children)


def paths_of(spec, path='t'):
    out = [path]
    for i, k in enumerate(spec[1]):
        out += paths_of(k, f'{path}{i}')
    return out


def prune_tree(sc, spec, prune, path='t', subst=None):
    """copy of the specification tree with the sub-trees at `prune` replaced by pruned branches (level 1)"""
    if path in prune:
        p = prune_cell(sc)
        if subst and subst[0] == path:
            p = SC(PRUNED, pruned_bits(1, [subst[1]], [cell_depth(sc, 0)]), [])
        return p
    kids = []
    for i, c in enumerate(sc.refs):
        # children added, dropped or swapped by a mutation keep their own shape; only original positions can be pruned
        k = spec[1][i] if i < len(spec[1]) and len(c.refs) == len(spec[1][i][1]) else None
        kids.append(prune_tree(c, k, prune, f'{path}{i}', subst) if k is not None else c)
    return SC(ORD, sc.bits, kids)


def prune_cell(sc):
    return prune(sc, 1)


def antichains(spec):
    ps = [p for p in paths_of(spec) if p != 't']
    out = [()]
    for r in range(1, len(ps) + 1):
        for combo in itertools.combinations(ps, r):
            if all(not (a != b and b.startswith(a)) for a in combo for b in combo):
                out.append(combo)
    return out


def _raises(f):
    try:
        f()
        return False
    except Exception:
        return True


def h_generic(ctx, tree, prune=(), scenario='honest', mut=None, twin=None):
    spec = TREES[tree]
    T = warm(build_tree(ctx, spec))
    root_hash = cell_hash(T, 0)
    if scenario == 'honest':
        proof = merkle_proof(warm(prune_tree(T, spec, set(prune))))
        rc = to_real(warm(proof))
        if twin == 'expect_reject':
            ctx.require(_raises(lambda: CP.check_proof(rc, root_hash)), 'twin')
            return
        ctx.require(not _raises(lambda: CP.check_proof(rc, root_hash)), 'the proof built by pruning is accepted against the root hash')
        ctx.require(rc.refs[0].get_hash(0) == root_hash, 'pruning leaves the level-0 hash unchanged')
    elif scenario == 'other_hash':
        proof = merkle_proof(warm(prune_tree(T, spec, set(prune))))
        h = ctx.bytes_('expected', 32)
        ctx.assume(Not(h == root_hash))
        ctx.require(_raises(lambda: CP.check_proof(to_real(warm(proof)), h)), 'a different expected hash is rejected')
    elif scenario == 'mutated':
        # the attacker changes an unpruned cell and is free to choose the hash and depth stored in the proof root
        T2 = warm(build_tree(ctx, spec, mut=mut))
        body = warm(prune_tree(T2, spec, set(prune)))
        stored = ctx.bytes_('stored_hash', 32)
        sd = ctx.uint('stored_depth', 16)
        proof = SC(MPROOF, cat_bits('00000011', bits_of_bytes(stored), bits_of_uint(sd, 16)), [body])
        ctx.assume(Not(cell_hash(T2, 0) == root_hash) if mut[1] in ('flip',) else True)
        ctx.require(_raises(lambda: CP.check_proof(to_real(warm(proof)), root_hash)), 'a change to an unpruned cell is rejected')
    elif scenario == 'subst_pruned':
        fake = ctx.bytes_('fake_hash', 32)
        target = prune[0]
        # hash of the genuinely pruned sub-tree
        node = T
        for ch in target[1:]:
            node = node.refs[int(ch)]
        ctx.assume(Not(fake == cell_hash(node, 0)))
        body = warm(prune_tree(T, spec, set(prune), subst=(target, fake)))
        stored = ctx.bytes_('stored_hash', 32)
        proof = SC(MPROOF, cat_bits('00000011', bits_of_bytes(stored), bits_of_uint(cell_depth(body, 0), 16)), [body])
        ctx.require(_raises(lambda: CP.check_proof(to_real(warm(proof)), root_hash)), 'a substituted pruned hash is rejected')
    elif scenario == 'not_proof':
        body = warm(prune_tree(T, spec, set(prune)))
        fake_root = SC(ORD, cat_bits('00000011', bits_of_bytes(root_hash), bits_of_uint(cell_depth(T, 0), 16)), [body])
        ctx.require(_raises(lambda: CP.check_proof(to_real(warm(fake_root)), root_hash)), 'a root that is not a Merkle proof cell is rejected')
        ctx.require(_raises(lambda: CP.check_proof(to_real(warm(T)), root_hash)), 'the bare tree is rejected')


def h_nested(ctx, variant, scenario='honest'):
    """trees that contain inner Merkle proof / Merkle update cells: sub-trees below an inner Merkle cell are pruned one level
    higher (level mask 0b10, and 0b11 when the sub-tree already holds a level-1 pruned branch)"""
    c = SC(ORD, ctx.bitstr('c', 7), [])
    d = SC(ORD, ctx.bitstr('d', 5), [])
    e = SC(ORD, ctx.bitstr('e', 3), [SC(ORD, ctx.bitstr('f', 9), [])])
    if scenario == 'mutated':
        dl = ctx.bitstr('delta', 5)
        ctx.assume(Not(dl == '00000'))
        d2 = SC(ORD, bits_of_uint(uint_of_bits(d.bits) ^ uint_of_bits(dl), 5), [])
    else:
        d2 = d
    a = SC(ORD, ctx.bitstr('a', 11), [])

    def tree(dd, proof_form):
        cc, ee, aa = c, e, a
        if proof_form:
            if variant in (0, 3, 4):
                cc = prune(c, 2)                     # below the inner Merkle cell: level 2 (mask 0b10)
            if variant in (1, 4):
                ee = prune(e, 2)
            if variant in (2, 3, 5):
                aa = prune(a, 1)
        b = SC(ORD, ctx.bitstr('b', 4), [cc, dd])
        if variant in (6, 7):
            # the inner Merkle cell's body already holds a level-1 pruned branch of its own (as a block's state update does);
            # the outer proof prunes a sibling below it one level higher: an ordinary cell over masks 0b01 and 0b10
            g = SC(ORD, ctx.bitstr('g', 8), [])
            own = prune(g, 1)
            cc2 = prune(c, 2) if proof_form else c
            b = SC(ORD, ctx.bitstr('b', 4), [own, cc2, dd])
            if variant == 6:
                inner = merkle_proof(warm(b))
            else:
                inner = merkle_update(warm(b), warm(SC(ORD, ctx.bitstr('b2', 6), [prune(SC(ORD, ctx.bitstr('g2', 3), []), 1)])))
            return warm(SC(ORD, ctx.bitstr('root', 6), [aa, inner]))
        if variant < 5:
            inner = merkle_proof(warm(b))
        else:
            inner = merkle_update(warm(b), warm(SC(ORD, ctx.bitstr('b2', 6), [ee])))
        return warm(SC(ORD, ctx.bitstr('root', 6), [aa, inner] + ([ee] if variant in (1, 4) and variant < 5 else [])))
    T = tree(d, False)
    root_hash = cell_hash(T, 0)
    if scenario == 'honest':
        rc = to_real(warm(merkle_proof(tree(d, True))))
        ctx.require(not _raises(lambda: CP.check_proof(rc, root_hash)), 'nested Merkle cells: the proof built by pruning is accepted')
    elif scenario == 'other_hash':
        h = ctx.bytes_('expected', 32)
        ctx.assume(Not(h == root_hash))
        ctx.require(_raises(lambda: CP.check_proof(to_real(warm(merkle_proof(tree(d, True)))), h)), 'nested Merkle cells: a different expected hash is rejected')
    else:
        body = tree(d2, True)
        stored = ctx.bytes_('stored_hash', 32)
        proof = SC(MPROOF, cat_bits('00000011', bits_of_bytes(stored), bits_of_uint(cell_depth(body, 0), 16)), [body])
        ctx.require(_raises(lambda: CP.check_proof(to_real(warm(proof)), root_hash)), 'nested Merkle cells: a change to an unpruned cell is rejected')


# ------------------------------------------------------------------------------- block header and account proofs
def mk_block(ctx, new_state, old_state):
    """block#11ef55aa global_id:int32 info:^BlockInfo value_flow:^ValueFlow state_update:^(MERKLE_UPDATE ShardState) extra:^BlockExtra"""
    info = SC(ORD, ctx.bitstr('info', 40), [])
    vf = SC(ORD, ctx.bitstr('vf', 16), [])
    extra = SC(ORD, ctx.bitstr('extra', 24), [])
    upd = merkle_update(prune(old_state, 1), prune(new_state, 1))
    blk = SC(ORD, cat_bits(bits_of_uint(0x11ef55aa, 32), ctx.bitstr('gid', 32)), [info, vf, upd, extra])
    return warm(blk)


def block_proof(blk, prune_parts=(0, 1, 3)):
    kids = [prune(c, 1) if i in prune_parts else c for i, c in enumerate(blk.refs)]
    return merkle_proof(warm(SC(ORD, blk.bits, kids)))


ACC_IDS = [int('11' * 32, 16), int('11' * 31 + '12', 16), int('e0' + '00' * 31, 16)]


def mk_state(ctx, n_acc, which, prune_others=True, tamper=None, extra_cur=False, keep=None):
    """shard_state#9023afe2 ... accounts:^ShardAccounts ... with n_acc accounts; returns (state cell, proof-form state cell, account cells)"""
    accounts = []
    for i in range(n_acc):
        acc = SC(ORD, ctx.bitstr(f'acc{i}', 21), [SC(ORD, ctx.bitstr(f'acc{i}k', 6), [])])
        accounts.append(acc)

    def leaf_bits(i):
        # account_descr$_ account:^Account last_trans_hash:bits256 last_trans_lt:uint64 ; extra depth_balance$_ split_depth:(#<= 30) balance:CurrencyCollection
        return cat_bits(bits_of_bytes(ctx.bytes_(f'lth{i}', 32)), bits_of_uint(ctx.uint(f'lt{i}', 64), 64))

    def build(proof_form):
        items = []
        for i in range(n_acc):
            acc = accounts[i]
            if proof_form:
                acc = prune(acc, 1)
            items.append((format(ACC_IDS[i], '0256b'), (i, acc)))
        root = D.build(items)
        if proof_form and prune_others and n_acc > 1:
            root = keep_only(root, format(ACC_IDS[which if keep is None else keep], '0256b'))
        extra = '0000000000'           # depth_balance$_ split_depth:(#<= 30) balance:CurrencyCollection  with depth 0, no funds
        if not extra_cur:
            tree = warm(D.encode(root, 256, lambda v: (leaf_bits(v[0]), [v[1]]), None, lambda node: extra))
        else:
            # balances with an extra currency: the augmentation value then carries a reference of its own, in front of the account
            from specs.tlbspec import extra_dict_cell
            amt = ctx.uint('xcur', 8)
            ctx.assume(amt >= 1)
            dcell = extra_dict_cell({3: amt})
            xw = W().u(0, 5)
            w_cc(xw, 0, {3: amt})
            tree = warm(_encode_aug_refs(root, 256, lambda v: (leaf_bits(v[0]), [v[1]]), xw))
            extra = xw
        accs_cell = SC(ORD, '1' + extra, [tree]) if isinstance(extra, str) else SC(ORD, cat_bits('1', extra.b), [tree] + list(extra.r))        # ahme_root$1 root:^(HashmapAug ...) extra:DepthBalanceInfo
        oq = SC(ORD, ctx.bitstr('outq', 30), [])
        grp = SC(ORD, ctx.bitstr('grp', 128 + 10), [])
        if proof_form:
            oq, grp = prune(oq, 1), prune(grp, 1)
        w = W().u(0x9023afe2, 32).i(ctx.sint('global_id', 32), 32)
        w.bits('00').u(ctx.uint('pfx', 6), 6).i(ctx.sint('wc', 32), 32).u(ctx.uint('shard', 64), 64)       # shard_ident$00
        w.u(ctx.uint('seq_no', 32), 32).u(ctx.uint('vert', 32), 32).u(ctx.uint('utime', 32), 32).u(ctx.uint('lt', 64), 64).u(ctx.uint('minref', 32), 32)
        w.ref(oq).u(0, 1).ref(accs_cell).ref(grp).bits('0')
        if tamper == 'state_field' and proof_form:
            w.b = cat_bits(w.b[:40], bits_of_uint(uint_of_bits(w.b[40:48]) ^ ctx_nonzero(ctx, 'sdelta', 8), 8), w.b[48:])
        return warm(w.cell())
    return build(False), build(True), accounts


def _encode_aug_refs(edge, m, value_enc, xw, path=''):
    """HashmapAug encoding whose augmentation value (writer xw) carries references: ahmn_leaf extra:Y value:X / ahmn_fork left right extra:Y"""
    if isinstance(edge, D.Pruned):
        return prune(_encode_aug_refs(edge.edge, m, value_enc, xw, path), 1)
    bits = D.enc_label(edge.label, m, D.canon_kind(edge.label, m))
    m2 = m - len(edge.label)
    if isinstance(edge.node, D.Leaf):
        vb, vrefs = value_enc(edge.node.value)
        return SC(ORD, cat_bits(bits, xw.b, vb), list(xw.r) + vrefs)
    l = _encode_aug_refs(edge.node.left, m2 - 1, value_enc, xw, path + '0')
    r = _encode_aug_refs(edge.node.right, m2 - 1, value_enc, xw, path + '1')
    return SC(ORD, cat_bits(bits, xw.b), [l, r] + list(xw.r))


def ctx_nonzero(ctx, name, n):
    d = ctx.uint(name, n)
    ctx.assume(d != 0)
    return d


def keep_only(edge, keybits):
    """proof form of a dictionary: every sub-tree that does not lead to `keybits` becomes a pruned branch"""
    if not isinstance(edge.node, D.Fork):
        return edge
    rest = keybits[len(edge.label):]
    l, r = edge.node.left, edge.node.right
    if rest[0] == '0':
        return D.Edge(edge.label, D.Fork(keep_only(l, rest[1:]), D.Pruned(r)))
    return D.Edge(edge.label, D.Fork(D.Pruned(l), keep_only(r, rest[1:])))


def h_account(ctx, n_acc, which, scenario='honest', twin=None, extra_cur=False):
    new_state, new_state_proof, accounts = mk_state(ctx, n_acc, which, tamper='state_field' if scenario == 'state_tampered' else None, extra_cur=extra_cur,
                                                    keep=((which + 1) % n_acc) if scenario.startswith('own_branch_pruned') else None)
    old_state = SC(ORD, ctx.bitstr('old', 50), [])
    blk = mk_block(ctx, new_state, old_state)
    root_hash = cell_hash(blk, 0)
    p1 = to_real(warm(block_proof(blk)))
    p2 = to_real(warm(merkle_proof(new_state_proof)))
    install = __import__('harness.boc_common', fromlist=['install_crc_stub']).install_crc_stub
    install(ctx)
    boc = _two_roots(ctx, p1, p2)
    addr = Address((0, ACC_IDS[which].to_bytes(32, 'big')))
    file_hash = ctx.bytes_('file_hash', 32)
    acc_real = to_real(accounts[which])

    def run(state_root, rh=root_hash):
        blk_id = BlockIdExt(0, None, 1, rh, file_hash)
        return CP.check_account_proof(boc, blk_id, addr, state_root)
    if scenario == 'honest':
        if twin == 'expect_reject':
            ctx.require(_raises(lambda: run(acc_real)), 'twin')
            return
        ctx.require(not _raises(lambda: run(acc_real)), 'the genuine account state is accepted')
    elif scenario == 'other_account':
        other = SC(ORD, ctx.bitstr('fake', 21), [SC(ORD, ctx.bitstr('fakek', 6), [])])
        ctx.assume(Not(cell_hash(warm(other), 0) == cell_hash(accounts[which], 0)))
        ctx.require(_raises(lambda: run(to_real(other))), 'a different account state is rejected')
    elif scenario == 'pruned_carrier':
        carrier = to_real(warm(prune(accounts[which], 1)))
        ctx.known('account_proof_accepts_pruned_carrier', True)
        ctx.require(_raises(lambda: run(carrier)), 'a pruned-branch cell that merely carries the committed hash is rejected')
    elif scenario.startswith('own_branch_pruned'):
        # a valid Merkle proof of the state in which the dictionary branch of the QUERIED account is pruned (another account's
        # branch is kept): nothing about the queried account is proven - neither its real state nor "no such account" (the empty
        # cell) may be accepted
        claim = Cell.empty() if scenario.endswith('empty') else acc_real
        ctx.require(not _raises(lambda: CP.check_proof(p2, cell_hash(new_state, 0))), 'the state proof with the queried branch pruned is a valid Merkle proof')
        ctx.require(_raises(lambda: run(claim)), 'a proof that prunes the queried account proves nothing about it')
    elif scenario == 'other_block_hash':
        rh = ctx.bytes_('claimed_root', 32)
        ctx.assume(Not(rh == root_hash))
        ctx.require(_raises(lambda: run(acc_real, rh)), 'a different block hash is rejected')
    elif scenario == 'state_tampered':
        ctx.require(_raises(lambda: run(acc_real)), 'a state that is not the one committed by the block is rejected')
    elif scenario in ('header_forged_level', 'state_forged_level'):
        # the attacker re-encodes the new-state child of the Merkle update as a pruned branch of level mask 0b11: its level-1
        # hash (the one the update cell's own hash is computed from) stays genuine, its level-0 hash is attacker-chosen
        upd = blk.refs[2]
        genuine_child = upd.refs[1]
        if scenario == 'header_forged_level':
            forged_hash, forged_depth = ctx.bytes_('forged', 32), ctx.uint('forged_depth', 10)
        else:
            tampered = mk_state(ctx, n_acc, which, tamper='state_field', extra_cur=extra_cur)[1]
            forged_hash, forged_depth = cell_hash(tampered, 0), cell_depth(tampered, 0)
        child = SC(PRUNED, pruned_bits(3, [forged_hash, cell_hash(genuine_child, 1)], [forged_depth, cell_depth(genuine_child, 1)]), [])
        upd2 = SC(MUPD, upd.bits, [upd.refs[0], child])
        blk2 = warm(SC(ORD, blk.bits, [prune(blk.refs[0], 1), prune(blk.refs[1], 1), upd2, prune(blk.refs[3], 1)]))
        ctx.require(cell_hash(blk2, 0) == root_hash, 'oracle: the re-encoded block keeps the block hash')
        p1f = to_real(warm(merkle_proof(blk2)))
        if scenario == 'header_forged_level':
            try:
                got = CP.check_block_header_proof(p1f.refs[0], root_hash, True)
                ok = got == cell_hash(new_state, 0)
            except Exception:
                ok = True
            ctx.known('header_proof_returns_unbound_level0_hash', True)
            ctx.require(ok, 'a block header proof yields only the state hash the block commits to')
        else:
            p2f = to_real(warm(merkle_proof(tampered)))
            boc2 = _two_roots(ctx, p1f, p2f)
            ctx.known('header_proof_returns_unbound_level0_hash', True)
            ctx.require(_raises(lambda: CP.check_account_proof(boc2, BlockIdExt(0, None, 1, root_hash, file_hash), addr, acc_real)),
                        'a state that is not committed by the block is rejected even when the update child is re-encoded with two levels')
    elif scenario == 'header':
        got = CP.check_block_header_proof(p1.refs[0], root_hash, True)
        ctx.require(got == cell_hash(new_state, 0), 'block header proof returns the hash of the new state')
        rh = ctx.bytes_('claimed_root', 32)
        ctx.assume(Not(rh == root_hash))
        ctx.require(_raises(lambda: CP.check_block_header_proof(p1.refs[0], rh, True)), 'block header proof with another hash is rejected')
        ctx.require(not _raises(lambda: CP.check_proof(p1, root_hash)), 'the block proof cell is a valid Merkle proof of the block')


def h_shard(ctx, scenario='honest', shape='leaf', which=0, n_wc=1, twin=None):
    """check_shard_proof: a masterchain block (real header: seqno, workchain -1) whose Merkle update commits to a masterchain
    state whose McStateExtra lists the shard blocks; the claimed shard block is accepted exactly when its root hash is the one
    of a ShardDescr of its workchain in the state that the block commits to"""
    from harness import C16c
    from harness import C16 as M16
    from specs.tlbschema import Chooser, W as TW, gen_type
    ch = Chooser(ctx, 3, None, 1)
    # --- masterchain state with custom:McStateExtra (shard hashes of workchain 0 in a BinTree of the given shape)
    w = TW().u(0x9023afe2, 32).i(ctx.sint('global_id', 32), 32)
    w.bits('00').u(0, 6).i(-1, 32).u(1 << 63, 64)
    mc_seqno = ctx.uint('mc_seqno', 32)
    w.u(mc_seqno, 32).u(0, 32).u(ctx.uint('utime', 32), 32).u(ctx.uint('lt', 64), 64).u(0, 32)
    oq = SC(ORD, ctx.bitstr('outq', 30), [])
    accs = SC(ORD, ctx.bitstr('accs', 33), [])
    grp = SC(ORD, ctx.bitstr('grp', 138), [])
    wc_ = TW().u(0xcc26, 16)
    sh = C16c.shard_hashes(ch, wc_, n_wc, shape)
    cfg_addr = ctx.bytes_('cfgaddr', 32)
    cfg_dict = D.encode(D.build([(format(0, '032b'), SC(ORD, ctx.bitstr('cfg0', 9), []))]), 32, lambda c: ('', [c]))
    wc_.bytes_(cfg_addr).ref(cfg_dict)
    # ^[ flags:(## 16) validator_info:ValidatorInfo prev_blocks:OldMcBlocksInfo after_key_block:Bool last_key_block:(Maybe ExtBlkRef) ... ]
    ggw = TW().u(0, 16)
    gen_type(ch, 'ValidatorInfo', ggw, 'vi', M16.HOOKS)
    ggw.bits('0')
    gen_type(ch, 'KeyMaxLt', ggw, 'kml', M16.HOOKS)
    ggw.bits('0').bits('0')
    gg = ggw.cell()
    wc_.ref(gg)
    M16.h_cc(ch, wc_, 'gb')

    def state(proof_form):
        w2 = TW()
        w2.b = w.b
        p = (lambda c: prune(c, 1)) if proof_form else (lambda c: c)
        extra = TW()
        extra.b = wc_.b
        extra.r = list(wc_.r)       # McStateExtra itself stays whole (its parser reads the config and the flags group unconditionally)
        w2.ref(p(oq)).u(0, 1).ref(p(accs)).ref(p(grp)).bits('1').ref(extra.cell())
        return warm(w2.cell())
    new_state, new_state_proof = state(False), state(True)
    # --- masterchain block with a real header
    wi = TW().bits(TS_tag())
    wi.u(ctx.uint('version', 32), 32).bits('0000').bits('000').bits('0').u(0, 8)
    hdr_seqno = mc_seqno if scenario != 'seqno_mismatch' else ctx.uint('hdr_seqno', 32)
    if scenario == 'seqno_mismatch':
        ctx.assume(Not(hdr_seqno == mc_seqno))
    wi.u(hdr_seqno, 32).u(0, 32)
    hdr_wc = -1 if scenario != 'not_masterchain_header' else 0
    wi.bits('00').u(0, 6).i(hdr_wc, 32).u(1 << 63, 64)
    for n in (32, 64, 64, 32, 32, 32, 32):
        wi.u(ctx.uint(f'hdr{n}_{len(wi.b)}', n), n)
    wp = TW()
    gen_type(ch, 'ExtBlkRef', wp, 'prev', M16.HOOKS)
    wi.ref(wp.cell())
    info = wi.cell()
    vf = SC(ORD, ctx.bitstr('vf', 16), [])
    extra_c = SC(ORD, ctx.bitstr('extra', 24), [])
    old_state = SC(ORD, ctx.bitstr('old', 50), [])
    upd = merkle_update(prune(old_state, 1), prune(new_state, 1))
    blk = warm(SC(ORD, cat_bits(bits_of_uint(0x11ef55aa, 32), ctx.bitstr('gid', 32)), [info, vf, upd, extra_c]))
    root_hash = cell_hash(blk, 0)
    p1 = to_real(warm(block_proof(blk, prune_parts=(1, 3))))
    shown_state = new_state_proof
    if scenario == 'other_state':
        # a well-formed state proof of ANOTHER state (one data bit of the state differs): its hash is not the committed one
        w_alt = TW()
        w_alt.b = cat_bits(new_state_proof.bits[:40], bits_of_uint(uint_of_bits(new_state_proof.bits[40:48]) ^ ctx_nonzero(ctx, 'sdelta', 8), 8), new_state_proof.bits[48:])
        shown_state = warm(SC(ORD, w_alt.b, list(new_state_proof.refs)))
    p2 = to_real(warm(merkle_proof(shown_state)))
    install = __import__('harness.boc_common', fromlist=['install_crc_stub']).install_crc_stub
    install(ctx)
    boc = _two_roots(ctx, p1, p2)
    file_hash = ctx.bytes_('file_hash', 32)
    leaves = sh[0]
    target = leaves[which % len(leaves)]
    rh_bits = target['root_hash']
    shard_root = bytes_of_bits(rh_bits) if not isinstance(rh_bits, (bytes, C.SymBytes)) else rh_bits
    if scenario == 'unknown_shard_block':
        shard_root = ctx.bytes_('claimed_shard_root', 32)
        for lf in leaves:
            r = lf['root_hash']
            ctx.assume(Not(shard_root == (bytes_of_bits(r) if not isinstance(r, (bytes, C.SymBytes)) else r)))
    claimed_mc_root = root_hash
    if scenario == 'other_block_hash':
        claimed_mc_root = ctx.bytes_('claimed_root', 32)
        ctx.assume(Not(claimed_mc_root == root_hash))
    mc_id = BlockIdExt(-1, None, mc_seqno if not isinstance(mc_seqno, int) else mc_seqno, claimed_mc_root, file_hash)
    shard_id = BlockIdExt(0 if scenario != 'other_workchain' else 5, None, 77, shard_root, ctx.bytes_('shard_file_hash', 32))

    def run():
        return CP.check_shard_proof(boc, mc_id, shard_id)
    if scenario == 'honest':
        if twin == 'expect_reject':
            ctx.require(_raises(run), 'twin')
            return
        ok = True
        try:
            got = run()
        except Exception:
            ok = False
        ctx.require(ok, 'shard proof: the shard block listed in the committed masterchain state is accepted')
    else:
        ctx.require(_raises(run), {'unknown_shard_block': 'shard proof: a shard block that the committed state does not list is rejected',
                                   'other_block_hash': 'shard proof: another masterchain block hash is rejected',
                                   'other_state': 'shard proof: a state that is not the one the block commits to is rejected',
                                   'seqno_mismatch': 'shard proof: a header with another sequence number is rejected',
                                   'not_masterchain_header': 'shard proof: a header of another workchain is rejected',
                                   'other_workchain': 'shard proof: a shard block of a workchain the state does not list is rejected'}[scenario])


def TS_tag():
    from specs import tlbschema as TS
    return TS.tagbits('#9bc7a987')


def _two_roots(ctx, a, b):
    """a bag of cells with two roots (built by the specification's encoder)"""
    from specs import bocspec
    order, index = [], {}

    def visit(c):
        if id(c) in index:
            return
        index[id(c)] = None
        order.append(c)
        for r in c.refs:
            visit(r)
    # topological order: parents before children (references must point forward)
    def topo_cells(roots):
        seen, out = set(), []

        def dfs(c):
            if id(c) in seen:
                return
            seen.add(id(c))
            for r in c.refs:
                dfs(r)
            out.append(c)
        for r in roots:
            dfs(r)
        return out[::-1]
    cells = topo_cells([a, b])
    pos = {id(c): i for i, c in enumerate(cells)}
    ecs = [bocspec.ECell(c.bits.to01(), [pos[id(r)] for r in c.refs], exotic=c.type_ != -1, mask=c.level_mask.mask) for c in cells]
    return bocspec.encode(ecs, roots=[pos[id(a)], pos[id(b)]])


# ------------------------------------------------------------------------------- instances
def instances(tier, seed):
    import random
    rnd = random.Random(seed)
    for tree, spec in TREES.items():
        acs = antichains(spec)
        for pr in acs:
            yield 'h_generic', dict(tree=tree, prune=list(pr), scenario='honest')
        some = acs if tier == 'thorough' else rnd.sample(acs, min(len(acs), 4))
        for pr in some:
            yield 'h_generic', dict(tree=tree, prune=list(pr), scenario='other_hash')
            yield 'h_generic', dict(tree=tree, prune=list(pr), scenario='not_proof')
            unpruned = [p for p in paths_of(spec) if not any(p.startswith(q) for q in pr)]
            for p in (unpruned if tier == 'thorough' else rnd.sample(unpruned, min(2, len(unpruned)))):
                node = spec
                for ch in p[1:]:
                    node = node[1][int(ch)]
                for kind in ('flip', 'longer', 'shorter', 'addref', 'dropref', 'swaprefs'):
                    if (kind in ('flip', 'shorter') and node[0] == 0) or (kind == 'dropref' and not node[1]) or (kind == 'swaprefs' and len(node[1]) < 2) \
                            or (kind == 'addref' and len(node[1]) >= 4):
                        continue        # the mutation does not apply to this cell
                    if kind in ('dropref', 'swaprefs') and any(q.startswith(p) and q != p for q in pr):
                        continue        # keeps the pruning positions meaningful
                    yield 'h_generic', dict(tree=tree, prune=list(pr), scenario='mutated', mut=[p, kind])
            if pr:
                yield 'h_generic', dict(tree=tree, prune=list(pr), scenario='subst_pruned')
    for n_acc in (1, 2, 3):
        for which in range(n_acc):
            for sc in ('honest', 'other_account', 'pruned_carrier', 'other_block_hash', 'state_tampered', 'header', 'header_forged_level', 'state_forged_level'):
                yield 'h_account', dict(n_acc=n_acc, which=which, scenario=sc)
    for n_acc, which in ((2, 0), (2, 1), (3, 1)):
        for sc in ('own_branch_pruned_empty', 'own_branch_pruned_real'):
            yield 'h_account', dict(n_acc=n_acc, which=which, scenario=sc)
    for sc in ('honest', 'other_account', 'pruned_carrier'):
        yield 'h_account', dict(n_acc=2, which=1, scenario=sc, extra_cur=True)
        yield 'h_account', dict(n_acc=1, which=0, scenario=sc, extra_cur=True)
    for variant in range(8):
        for sc in ('honest', 'other_hash', 'mutated'):
            yield 'h_nested', dict(variant=variant, scenario=sc)
    for shape, n_leaves in (('leaf', 1), (['leaf', 'leaf'], 2), ([['leaf', 'leaf'], 'leaf'], 3)):
        if tier == 'quick' and n_leaves == 3:
            continue
        for which in range(n_leaves):
            yield 'h_shard', dict(scenario='honest', shape=shape, which=which, n_wc=1 + which % 2)
        for sc in ('unknown_shard_block', 'other_block_hash', 'other_state', 'seqno_mismatch', 'not_masterchain_header', 'other_workchain'):
            if tier == 'quick' and (n_leaves == 1) != (sc in ('seqno_mismatch', 'not_masterchain_header', 'other_workchain')):
                continue
            yield 'h_shard', dict(scenario=sc, shape=shape, which=n_leaves - 1)


def twins(tier, seed):
    yield 'h_generic', dict(tree='pair', prune=['t0'], scenario='honest', twin='expect_reject')
    yield 'h_account', dict(n_acc=2, which=1, scenario='honest', twin='expect_reject')
    yield 'h_shard', dict(scenario='honest', shape=['leaf', 'leaf'], which=1, twin='expect_reject')


INSTANCE_TIMEOUT = {'quick': 200, 'thorough': 900}
BOUNDS = {
    'generic proofs': 'trees ' + ', '.join(TREES) + ' (<= 6 cells, contents symbolic) with EVERY antichain of pruned sub-trees (completeness); soundness: any other '
                      '256-bit expected hash, any non-zero change / lengthening / shortening / added / dropped / swapped reference of an unpruned cell with an '
                      'attacker-chosen stored hash, any substituted pruned hash, non-proof roots (quick: 4 seeded antichains x 2 cells per tree)',
    'nested Merkle cells': '6 trees with an inner Merkle proof / update cell, sub-trees below it pruned at level 2 (masks 0b10, 0b11)',
    'shard proofs': 'masterchain block with a real header and a Merkle update, masterchain state with McStateExtra listing 1..3 shard blocks of workchain 0 in a BinTree (contents symbolic); '
                    'claimed shard block listed / not listed / of another workchain; other block hash; another state; header of another seqno or workchain',
    'account proofs': 'shard states with 1..3 accounts (ids concrete, everything else symbolic), the other accounts pruned; block with a Merkle update; balances with and without an extra currency in the dictionary augmentation; claimed state '
                      'genuine / different / pruned-branch carrier; other block hash; tampered state',
}
OUTSIDE = ['trees of more than 6 cells', 'hash collisions (assumed away: SHA-256 as an injective function)']
STUBS = ['hashlib.sha256: injective uninterpreted function', 'crc32c inside the BoC code: memoised uninterpreted function']
ASSUMPTIONS = ['specs/cellspec.py (pruned branches, Merkle proofs/updates), specs/dictspec.py, specs/bocspec.py']
