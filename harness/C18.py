"""C18 - CRC-16/XMODEM and CRC-32C equal their bitwise definitions.

Technique B (all lengths): the loop body of each function is sliced from the AST of the *current* source and
executed once from an arbitrary symbolic state and byte; with the initial value and the finalisation read off the
same source this gives crc(data) = fin(fold(step, init, data)) for data of every length.
Technique A (bounded): the whole function on N fully symbolic bytes, which also validates the slicing.
"""
import ast
import os

from sx.api import *
from sx import core as C

PROPERTY = 'C18'
REPO = os.environ.get('SX_REPO', '/repo')
SRC = os.path.join(REPO, 'pytoniq_core', 'crypto', 'crc.py')

SPEC = {
    'crc16': dict(width=16, init=0, poly=0x1021, reflected=False, xorout=0, out_len=2),
    'crc32c': dict(width=32, init=0xffffffff, poly=0x82F63B78, reflected=True, xorout=0xffffffff, out_len=4),
}


# ---------------------------------------------------------------------------- bitwise definitions (oracle)
def ref_step(which, crc, byte, poly=None):
    sp = SPEC[which]
    poly = sp['poly'] if poly is None else poly
    w = sp['width']
    mask = (1 << w) - 1
    if sp['reflected']:
        crc = crc ^ byte
        for _ in range(8):
            crc = Ite((crc & 1) == 1, (crc >> 1) ^ poly, crc >> 1)
        return crc
    crc = crc ^ (byte << (w - 8))
    for _ in range(8):
        crc = Ite((crc & (1 << (w - 1))) != 0, ((crc << 1) ^ poly) & mask, (crc << 1) & mask)
    return crc


def ref_crc(which, data, byteorder=None, poly=None):
    sp = SPEC[which]
    crc = sp['init']
    for b in data:
        crc = ref_step(which, crc, b, poly)
    crc = crc ^ sp['xorout']
    order = byteorder or ('big' if which == 'crc16' else 'little')
    return crc.to_bytes(sp['out_len'], order)


# ---------------------------------------------------------------------------- slicing of the fold shape
def slice_fold(which):
    """returns dict(prelude, body, ret, state, item, param) as lists of ast statements, or None if the function
    does not have the shape   <prelude>; for ITEM in PARAM0: <body assigning only STATE>; return <expr>"""
    with open(SRC, encoding='utf-8') as f:
        tree = ast.parse(f.read())
    fn = next((n for n in tree.body if isinstance(n, ast.FunctionDef) and n.name == which), None)
    if fn is None or not fn.args.args:
        return None
    param = fn.args.args[0].arg
    stmts = [s for s in fn.body if not (isinstance(s, ast.Expr) and isinstance(s.value, ast.Constant))]
    loops = [i for i, s in enumerate(stmts) if isinstance(s, ast.For)]
    if len(loops) != 1:
        return None
    i = loops[0]
    loop = stmts[i]
    if loop.orelse or not isinstance(loop.target, ast.Name) or not isinstance(loop.iter, ast.Name) \
            or loop.iter.id != param or i != len(stmts) - 2 or not isinstance(stmts[-1], ast.Return):
        return None
    assigned = set()
    for s in loop.body:
        for n in ast.walk(s):
            if isinstance(n, (ast.Break, ast.Continue, ast.Return, ast.For, ast.While, ast.Yield)):
                return None
            if isinstance(n, ast.Name) and isinstance(n.ctx, ast.Store):
                assigned.add(n.id)
    if len(assigned) != 1:
        return None
    state = assigned.pop()
    for s in stmts[:i]:
        for n in ast.walk(s):
            if isinstance(n, ast.Name) and n.id == param:
                return None        # the prelude must not depend on the data
    others = [a.arg for a in fn.args.args[1:]]
    return dict(prelude=stmts[:i], body=loop.body, ret=stmts[-1], state=state, item=loop.target.id, param=param,
                others=others, defaults=fn.args.defaults)


def _compile(stmts, symbolic, name):
    mod = ast.Module(body=[ast.fix_missing_locations(s) for s in stmts], type_ignores=[])
    if symbolic:
        from sx import hook
        mod = hook.T('harness.C18.' + name).visit(mod)
        ast.fix_missing_locations(mod)
    return compile(mod, f'<sliced {name}>', 'exec')


def _env(symbolic):
    # module-level names of the real module (tables moved out of the function are still found)
    import importlib
    base = {k: v for k, v in vars(importlib.import_module('pytoniq_core.crypto.crc')).items() if not k.startswith('__')}
    if symbolic:
        from sx import hook
        return {**base, '__sx_getitem__': hook.sx_getitem, '__sx_fstr__': hook.sx_fstr, '__sx_enter__': lambda k: None,
                'int': hook.SxInt, 'bytes': hook.SxBytes, 'len': hook.sx_len, 'range': hook.sx_range,
                'isinstance': hook.sx_isinstance}
    return base


def run_prelude(sl, symbolic):
    g = _env(symbolic)
    exec(_compile(list(sl['prelude']), symbolic, 'prelude'), g)
    return g


def h_step(ctx, which, twin=None):
    """one real loop iteration from an arbitrary state and byte equals the bitwise step (=> all lengths)"""
    sl = slice_fold(which)
    assert sl is not None
    sp = SPEC[which]
    w = sp['width']
    g = run_prelude(sl, ctx.symbolic)
    ctx.require(g[sl['state']] == sp['init'], f'{which}: initial register value')
    s = ctx.uint('state', w)
    b = ctx.uint('byte', 8)
    g2 = dict(g)
    g2[sl['state']] = s
    g2[sl['item']] = b
    exec(_compile(list(sl['body']), ctx.symbolic, 'body'), g2)
    out = g2[sl['state']]
    ctx.observe('step', out)
    poly = (sp['poly'] ^ 2) if twin == 'poly' else None
    ctx.require(out == ref_step(which, s, b, poly), f'{which}: loop body equals the bitwise step')
    ctx.require(And(out >= 0, out < (1 << w)), f'{which}: register stays within {w} bits')


def h_final(ctx, which, byteorder=None):
    """the return expression applied to an arbitrary register value is the specified finalisation"""
    sl = slice_fold(which)
    assert sl is not None
    sp = SPEC[which]
    g = run_prelude(sl, ctx.symbolic)
    s = ctx.uint('state', sp['width'])
    g[sl['state']] = s
    # parameters other than the data (crc32c: byteorder) take their default or the requested value
    for name, dflt in zip(sl['others'][len(sl['others']) - len(sl['defaults']):], sl['defaults']):
        g[name] = ast.literal_eval(dflt)
    if byteorder is not None:
        assert sl['others'], 'function has no byte-order parameter'
        g[sl['others'][0]] = byteorder
    expr = ast.Expression(body=sl['ret'].value)
    if ctx.symbolic:
        from sx import hook
        expr = hook.T('harness.C18.ret').visit(expr)
    ast.fix_missing_locations(expr)
    out = eval(compile(expr, '<sliced return>', 'eval'), g)
    ctx.observe('out', out)
    order = byteorder or ('big' if which == 'crc16' else 'little')
    want = (s ^ sp['xorout']).to_bytes(sp['out_len'], order)
    ctx.require(out == want, f'{which}: finalisation (xor-out, {order}-endian, {sp["out_len"]} bytes)')


def h_whole(ctx, which, n, byteorder=None, twin=None):
    """the whole real function on n fully symbolic bytes equals the bitwise definition"""
    from pytoniq_core.crypto import crc as crcmod
    data = ctx.bytes_('data', n)
    fn = getattr(crcmod, which)
    out = fn(data) if byteorder is None else fn(data, byteorder)
    ctx.observe('crc', out)
    poly = (SPEC[which]['poly'] ^ 2) if twin == 'poly' else None
    ctx.require(out == ref_crc(which, data, byteorder, poly), f'{which}: whole function on {n} bytes')
    ctx.require(len(out) == SPEC[which]['out_len'], f'{which}: result length')


def h_long(ctx, which, n, pos, k=1, byteorder=None):
    """the whole real function on an n-byte input whose bytes pos..pos+k-1 are symbolic (concrete filler elsewhere):
    length-dependent code paths (block loops, tails, fast paths) at every length boundary"""
    from pytoniq_core.crypto import crc as crcmod
    filler = bytes((i * 73 + 29) & 0xff for i in range(n))
    data = filler[:pos] + ctx.bytes_('data', k) + filler[pos + k:]
    fn = getattr(crcmod, which)
    out = fn(data) if byteorder is None else fn(data, byteorder)
    ctx.observe('crc', out)
    ctx.require(out == ref_crc(which, data, byteorder), f'{which}: whole function on long inputs with a symbolic byte')


def h_history(ctx, which, n, k=1):
    """the checksum is a function of (data, byte order) alone: a sequence of calls in one process - the same data in the
    other byte order, different data of the same length, the same data again - each equals the bitwise definition
    (a result cache keyed on less than all arguments, or any other state carried between calls, shows here)"""
    from pytoniq_core.crypto import crc as crcmod
    filler = bytes((i * 91 + 7) & 0xff for i in range(n))
    d1 = filler[:n - k] + ctx.bytes_('d1', k)
    d2 = filler[:n - k] + ctx.bytes_('d2', k)
    fn = getattr(crcmod, which)
    orders = (None,) if which == 'crc16' else (None, 'big', 'little')
    calls = []
    for d in (d1, d2, d1):
        for o in orders:
            calls.append((d, o))
    calls += [(d1, orders[-1]), (d1, orders[0]), (d2, orders[-1]), (b'', orders[0]), (d1, orders[0])]
    other = 'crc32c' if which == 'crc16' else 'crc16'
    ofn = getattr(crcmod, other)
    for i, (d, o) in enumerate(calls):
        out = fn(d) if o is None else fn(d, o)
        ctx.require(out == ref_crc(which, d, o), f'{which}: call sequence - every call equals the bitwise definition')
        if i % 3 == 1:
            # the other checksum of the same data in between: the two functions share nothing
            ctx.require(ofn(d) == ref_crc(other, d, None), f'{other}: call sequence - every call equals the bitwise definition')


def h_zero_register(ctx, which, zeros, k=1):
    """inputs that drive the register to exactly 0 in the middle (crc32c: four 0xff bytes from the all-ones start; crc16: the
    zero start itself), keep it there with zero bytes, and end in symbolic bytes: a register value of 0 is a value like any other"""
    from pytoniq_core.crypto import crc as crcmod
    head = (b'\xff' * 4 if which == 'crc32c' else b'') + bytes(zeros)
    data = head + ctx.bytes_('tail', k)
    fn = getattr(crcmod, which)
    for o in ((None,) if which == 'crc16' else (None, 'big')):
        out = fn(data) if o is None else fn(data, o)
        ctx.require(out == ref_crc(which, data, o), f'{which}: inputs that drive the register through zero')
    ctx.require(fn(head) == ref_crc(which, head, None), f'{which}: inputs that drive the register through zero')


def h_vectors(ctx, which):
    """published check values (validates the oracle itself): CRC of b'123456789'"""
    from pytoniq_core.crypto import crc as crcmod
    want = {'crc16': bytes.fromhex('31c3'), 'crc32c': bytes.fromhex('e3069283')[::-1]}[which]
    ctx.require(ref_crc(which, b'123456789') == want, f'{which}: oracle check value')
    ctx.require(getattr(crcmod, which)(b'123456789') == want, f'{which}: library check value')
    ctx.require(getattr(crcmod, which)(b'') == ref_crc(which, b''), f'{which}: empty input')


def instances(tier, seed):
    for which in ('crc16', 'crc32c'):
        yield 'h_vectors', dict(which=which)
        if slice_fold(which) is not None:
            yield 'h_step', dict(which=which)
            yield 'h_final', dict(which=which)
            if which == 'crc32c':
                yield 'h_final', dict(which=which, byteorder='big')
                yield 'h_final', dict(which=which, byteorder='little')
    top16 = 6 if tier == 'quick' else 8
    for n in range(0, top16 + 1):
        yield 'h_whole', dict(which='crc16', n=n)
    for n in (0, 1) if tier == 'quick' else (0, 1, 2):
        yield 'h_whole', dict(which='crc32c', n=n)
        yield 'h_whole', dict(which='crc32c', n=n, byteorder='big')


    lens = [3, 4, 5, 8, 15, 16, 17, 32, 63, 64, 65, 128, 255, 256, 257, 1024] + ([31, 33, 127, 129, 512, 1000, 4096, 9878] if tier == 'thorough' else [])
    for which in ('crc16', 'crc32c'):
        for n in lens:
            # crc32c: the 256-entry table indexed by a symbolic register byte nests once per remaining byte, so the
            # symbolic byte sits at most two bytes before the end (crc16 affords any position)
            for pos in (sorted({0 if n <= 65 else n - 40, n // 2 if n <= 128 else n - 9, n - 1}) if which == 'crc16' else sorted({n - 2, n - 1})):
                yield 'h_long', dict(which=which, n=n, pos=pos)
        yield 'h_long', dict(which=which, n=64, pos=62, k=2)
        yield 'h_long', dict(which=which, n=68, pos=66, k=1, byteorder='big' if which == 'crc32c' else None)
    for n in (255, 256, 511, 512, 513, 1024, 4096) + ((2048, 9878, 65536) if tier == 'thorough' else ()):
        for bo in ('big', 'little'):
            yield 'h_long', dict(which='crc32c', n=n, pos=n - 1, byteorder=bo)


    for which in ('crc16', 'crc32c'):
        for n in (1, 2, 34, 36, 64, 70):
            yield 'h_history', dict(which=which, n=n, k=1)
        for zeros in (0, 1, 3, 4, 8, 60, 508):
            yield 'h_zero_register', dict(which=which, zeros=zeros, k=1)
        yield 'h_zero_register', dict(which=which, zeros=4, k=2 if which == 'crc16' else 1)


def twins(tier, seed):
    for which in ('crc16', 'crc32c'):
        if slice_fold(which) is not None:
            yield 'h_step', dict(which=which, twin='poly')
        yield 'h_whole', dict(which=which, n=1, twin='poly')


BOUNDS = {
    'technique B (h_step/h_final)': 'arbitrary 16-/32-bit register state and arbitrary byte: with init and finalisation this covers '
                                     'inputs of every length, provided the function has the fold shape (checked syntactically on each run; '
                                     'fold_shape_recognised below)',
    'technique A (h_whole)': 'crc16: 0..6 (quick) / 0..8 (thorough) fully symbolic bytes; crc32c: 0..1 / 0..2 bytes, both byte orders',
    'technique A with filler (h_long)': 'inputs of 3..1024 (thorough ..9878) bytes at block-size boundaries, one symbolic byte at the first/middle/last position (crc32c: last or last but one; crc16: at most 64 bytes before the end), concrete filler elsewhere',
    'fold_shape_recognised': {w: slice_fold(w) is not None for w in SPEC},
}
BOUNDS['call sequences (h_history)'] = ('13 (crc32c) / 8 (crc16) calls in one process over two inputs of 1, 2, 34, 36, 64, 70 bytes whose last byte is '
                                         'symbolic, both byte orders interleaved, the empty input in between')
OUTSIDE = ['if the fold shape is not recognised only the bounded whole-function claim is made']
STUBS = []
ASSUMPTIONS = ['CPython semantics of for-loops over bytes (one iteration per byte, in order)',
               'the bitwise definitions in harness/C18.py (validated against the published check values of both CRCs)']
