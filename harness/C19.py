"""C19 - work is bounded by the size of the input; every parser terminates.

Work = number of source lines of the repository executed (a `sys.settrace` line counter restricted to files under the
repository: deterministic, identical instrument in the symbolic run and in the concrete replay on the untouched library).
Every metered call runs under a cap: the counter aborts the call as soon as the budget is exceeded, so a runaway loop costs
the check a fraction of a second instead of hours.

Count-field half (genuinely symbolic): the real TlSchemas.deserialize, Boc/Cell.from_boc and hashmap parsers are executed
on inputs whose length fields, counts, flags, descriptors and contents are SYMBOLIC bytes/bits of an enumerated length L.
Every feasible path (solver-decided forks; loops over a symbolic count fork once per iteration through the lazy `range`)
must finish within W(L) = a*L + b lines; a path that does not is a counterexample: its path condition is solved for an
input, which is replayed on the untouched library under the same counter.

DAG half (shape enumerated, contents symbolic): maximal-sharing families (double chains, ladders, Fibonacci DAGs, ...)
of depth up to 64: construction (hashing), to_boc under option sets, from_boc, re-serialisation, copies, slices, hash and
depth queries - each within a*(n+e)^2 + b lines.  Exponential re-traversal exceeds that by orders of magnitude from depth
18 on and is cut by the cap.
"""
import os
import sys

from harness.boc_common import *
from sx import core as C
from specs import dictspec as D

from pytoniq_core.boc import Builder, Cell, Slice
from pytoniq_core.tl.generator import TlGenerator

PROPERTY = 'C19'
REPO = os.environ.get('SX_REPO', '/repo')
_PREFIX = REPO.rstrip(os.sep) + os.sep


# ------------------------------------------------------------------------------- the work counter
class WorkExceeded(C.SxControl):
    pass


class Work:
    def __init__(self, cap):
        self.n = 0
        self.cap = cap
        self.exceeded = False
        self._old = None

    def _global(self, frame, event, arg):
        if frame.f_code.co_filename.startswith(_PREFIX):
            return self._local
        return None

    def _local(self, frame, event, arg):
        if event == 'line':
            self.n += 1
            if self.n > self.cap:
                self.exceeded = True
                sys.settrace(None)
                raise WorkExceeded(f'more than {self.cap} lines')
        return self._local

    def __enter__(self):
        self._old = sys.gettrace()
        sys.settrace(self._global)
        return self

    def __exit__(self, *a):
        sys.settrace(self._old)
        return False


SLACK = 1.3       # the symbolic run is cut a little later than the budget, so that a model of the cut path is sure to
                  # exceed the budget itself when it is replayed on the untouched library (line counts of the
                  # instrumented and the untouched code differ by a few lines per call at most)
PEAK = {}


class Cut(Exception):
    """raised by metered() after the violation has been recorded: ends the path"""


def metered(ctx, label, budget, fn, accept=(Exception,)):
    """run fn under the line counter; returns (value or None, lines).  Exceptions of the library are legitimate
    rejections here (C05 decides what must be accepted); only the amount of work is judged."""
    from sx import hook
    cap = int(budget * SLACK) if ctx.symbolic else int(budget)
    w = Work(cap)
    val = None
    over = False
    try:
        with w:
            try:
                val = fn()
            except (WorkExceeded, hook.BudgetExceeded):
                over = True
            except accept:
                val = None
    finally:
        sys.settrace(None)
    if os.environ.get('C19_CALIBRATE'):
        k = label
        PEAK[k] = max(PEAK.get(k, 0), w.n / budget)
    if over:
        ctx.require(False, label)
        raise Cut()
    ctx.require(w.n <= budget, label)
    return val, w.n


# ------------------------------------------------------------------------------- TL parser on symbolic bytes
_S = {}


def lib():
    if 'l' not in _S:
        _S['l'] = TlGenerator.with_default_schemas().generate()
    return _S['l']


_UNREG = {}


class SymIdMap(dict):
    """constructor table looked up with symbolic bytes: a fork per focus constructor, otherwise the id is assumed
    to be unregistered (stated bound)"""
    focus = ()
    eng = None

    def get(self, key, default=None):
        if isinstance(key, C.SymBytes):
            if len(key) != 4:
                return default
            for fid in self.focus:
                if key == fid:
                    return dict.get(self, fid)
            e = key.bits.bv()
            hit = _UNREG.get(e.get_id())
            if hit is None:
                others = [int.from_bytes(k, 'big') for k in self if k not in self.focus]
                hit = (e, z3.And(*[e != z3.BitVecVal(v, 32) for v in others]))
                if len(_UNREG) > 5000:
                    _UNREG.clear()
                _UNREG[e.get_id()] = hit          # the term is kept alive together with its id
            C.E().assume(hit[1])
            return default
        return dict.get(self, key, default)


import z3  # noqa: E402


def tl_budget(L):
    return 120 * L + 1500


def tl_bytes(ctx, tpl):
    tl = lib()
    data = b''
    focus = []
    k = 0
    for seg in tpl:
        if seg[0] == 'id':
            sch = tl.get_by_name(seg[1])
            data = data + sch.little_id()
            focus.append(sch.id)
        elif seg[0] == 'c':
            data = data + bytes.fromhex(seg[1])
        elif seg[0] == 'nest':
            data = data + nested_objects(tl, seg[1], seg[2] if len(seg) > 2 else 2)
        else:
            k += 1
            if seg[1]:
                data = data + ctx.bytes_(f's{k}', seg[1])
    return data, focus


def nested_objects(tl, depth, width=2):
    """a byte-string field that holds `width` encoded objects back to back, the first of which carries such a field
    again, `depth` levels deep (the parser re-parses byte strings that start with a known constructor id): the work must
    stay proportional to the length, not double with every level"""
    q = tl.get_by_name('liteServer.query').little_id()
    leaf = tl.get_by_name('liteServer.getTime').little_id()

    def tl_bytes_field(b):
        head = bytes([len(b)]) if len(b) <= 253 else b'\xfe' + len(b).to_bytes(3, 'little')
        out = head + b
        return out + bytes((-len(out)) % 4)
    inner = leaf
    for _ in range(depth):
        inner = q + tl_bytes_field(inner + leaf * (width - 1))
    return inner


def auto_tpl(name, flagval, k):
    """template for a constructor: fixed-layout fields up to the first vector / object field are symbolic (a flags
    field that guards optional fields is concrete: flagval), byte strings in front of it are empty, then the rest -
    count field included - is k symbolic bytes"""
    tl = lib()
    sch = tl.get_by_name(name)
    tpl = [['id', name]]
    flags = {}
    guarded = {t.split('.')[0] for t in sch.args.values() if '?' in t}
    for field, t in sch.args.items():
        if '?' in t:
            fl, rest = t.split('?', 1)
            fname, bit = fl.split('.')
            if fname not in flags or not (flags[fname] >> int(bit)) & 1:
                continue
            t = rest
        size = tl.base_types.get(t)
        if size:
            if t == '#' and field in guarded:
                flags[field] = flagval
                tpl.append(['c', flagval.to_bytes(4, 'little').hex()])
            else:
                tpl.append(['s', size])
        elif t in ('bytes', 'string'):
            tpl.append(['c', '00000000'])
        else:
            break
    tpl.append(['s', k])
    return tpl


def h_tl(ctx, tpl, boxed=True, twin=None):
    tl = lib()
    data, focus = tl_bytes(ctx, tpl)
    L = len(data)
    budget = tl_budget(L) if twin is None else 12
    real_map = tl.id_map
    if ctx.symbolic:
        from sx import hook
        m = SymIdMap(real_map)
        m.focus = tuple(focus)
        tl.id_map = m
        hook.LOOP['budget'] = budget
    try:
        metered(ctx, 'TL parser: work within a*len(input)+b', budget, lambda: tl.deserialize(data, boxed=boxed))
    except Cut:
        pass
    finally:
        tl.id_map = real_map


# ------------------------------------------------------------------------------- BoC parser on symbolic bytes
MAGICS = {'generic': 'b5ee9c72', 'idx': '68ff65f3', 'idx_crc': 'acc3a728'}


def boc_budget(L):
    return 150 * L + 1500


def h_boc(ctx, tpl, twin=None):
    data = b''
    k = 0
    for seg in tpl:
        if seg[0] == 'c':
            data = data + bytes.fromhex(seg[1])
        else:
            k += 1
            data = data + ctx.bytes_(f's{k}', seg[1])
    L = len(data)
    budget = boc_budget(L) if twin is None else 5
    install_crc_stub(ctx)
    if ctx.symbolic:
        from sx import hook
        hook.LOOP['budget'] = budget
    try:
        metered(ctx, 'BoC parser: work within a*len(input)+b', budget, lambda: Cell.from_boc(data))
    except Cut:
        pass


# ------------------------------------------------------------------------------- dictionary parser on symbolic bits
def dict_budget(bits, cells, key_len):
    return 60 * (bits + cells) + 40 * key_len + 1500


def h_dict(ctx, key_len, shape, nbits, aug=False, twin=None):
    """parse_hashmap / parse_hashmap_aug on a TREE of cells (shape: child lists, tree-shaped) whose data bits are all
    symbolic: label kinds, label lengths (unary, hml_long n, hml_same n) are whatever the bits say"""
    from harness.dict_common import hm_mod
    P = hm_mod('parse')
    n = len(shape)
    cells = [None] * n
    for i in reversed(range(n)):
        cells[i] = SC(ORD, ctx.bitstr(f'c{i}', nbits[i]), [cells[j] for j in shape[i]])
    root = to_real(warm(cells[0]), via='ctor')
    tot = sum(nbits)
    budget = dict_budget(tot, n, key_len) if twin is None else 8
    if ctx.symbolic:
        from sx import hook
        hook.LOOP['budget'] = budget
    try:
        if aug:
            metered(ctx, 'dictionary parser (augmented): work within a*(bits+cells)+c*key_len+b', budget,
                    lambda: P.parse_hashmap_aug(root.begin_parse(), key_len, lambda s: s.load_bits(2), lambda s: s.load_bits(1)))
        else:
            metered(ctx, 'dictionary parser: work within a*(bits+cells)+c*key_len+b', budget,
                    lambda: P.parse_hashmap(root.begin_parse(), key_len))
    except Cut:
        pass


# ------------------------------------------------------------------------------- DAG families
def dag_family(name, d):
    """child lists in topological numbering (root 0)"""
    if name == 'chain2':        # every cell references the next one twice: 2^d paths, d+1 cells
        return [[i + 1, i + 1] for i in range(d)] + [[]]
    if name == 'chain4':        # four references to the same child: 4^d paths
        return [[i + 1] * 4 for i in range(d)] + [[]]
    if name == 'chain3mix':     # three references to the next, one to the one after
        return [[i + 1, i + 1, min(i + 2, d), i + 1] for i in range(d)] + [[]]
    if name == 'ladder':        # two cells per level, each references both cells of the next level: 2^d paths
        sh = [[1, 2]]
        for lv in range(1, d + 1):
            a, b = 2 * lv - 1, 2 * lv
            sh.append([a + 2, b + 2] if lv < d else [])
            sh.append([b + 2, a + 2] if lv < d else [])
        return sh
    if name == 'fib':           # cell i references i+1 and i+2: Fibonacci many paths
        return [[i + 1, i + 2] if i + 2 <= d else ([i + 1] if i + 1 <= d else []) for i in range(d + 1)]
    if name == 'tree2':         # no sharing at all: complete binary tree of depth d (control: must not alarm)
        n = (1 << (d + 1)) - 1
        return [[2 * i + 1, 2 * i + 2] if 2 * i + 2 < n else [] for i in range(n)]
    if name == 'chain1':        # plain chain (control)
        return [[i + 1] for i in range(d)] + [[]]
    raise ValueError(name)


def dag_budget(n, e):
    return 40 * (n + e) ** 2 + 3000


def h_dag(ctx, family, d, sym='all', opts=None, twin=None):
    shape = dag_family(family, d)
    n = len(shape)
    e = sum(len(s) for s in shape)
    budget = dag_budget(n, e) if twin is None else 20
    cells = [None] * n
    for i in reversed(range(n)):
        if sym == 'all' or (sym == 'leaf' and i == n - 1):
            bits = ctx.bitstr(f'c{i}', 8 if sym == 'all' else 16)
        else:
            bits = format(i & 0xffff, '016b')
        cells[i] = SC(ORD, bits, [cells[j] for j in shape[i]])
    sc = cells[0]
    install_crc_stub(ctx)
    opts = opts or dict()
    try:
        root, _ = metered(ctx, 'construction and hashing of the DAG: work within a*(n+e)^2+b', budget,
                          lambda: to_real(sc, via='ctor'), accept=())
        boc, _ = metered(ctx, 'to_boc: work within a*(n+e)^2+b', budget, lambda: root.to_boc(**opts), accept=())
        r2, _ = metered(ctx, 'from_boc: work within a*(n+e)^2+b', budget, lambda: Cell.one_from_boc(boc), accept=())
        boc2, _ = metered(ctx, 're-serialising the parsed DAG: work within a*(n+e)^2+b', budget,
                          lambda: r2.to_boc(**opts), accept=())
        ctx.require(boc2 == boc, 're-serialising the parsed DAG gives the same bytes')
        ctx.observe('boc_len', len(boc))

        def misc():
            c = root.copy()
            s = root.begin_parse()
            k = s.load_ref() if root.refs else None
            x = [root.get_hash(i) for i in range(4)] + [root.get_depth(i) for i in range(4)]
            b = Builder().store_ref(root).store_ref(r2).end_cell()
            eq = (root == r2, c == root)
            o = root.order()
            t = s.to_cell()
            return len(o), b.get_depth(), eq
        res, _ = metered(ctx, 'copy/slice/hash/depth/parent/order/equality: work within a*(n+e)^2+b', budget, misc, accept=())
        ctx.require(And(res[0] <= n, res[0] >= d + 1), 'order() lists every distinct cell once')
        ctx.require(res[1] == d + 1, 'depth of a parent of the DAG')
    except Cut:
        pass


# ------------------------------------------------------------------------------- instances
def instances(tier, seed):
    q = tier == 'quick'
    # --- TL: vectors of every element kind, count field + everything after it symbolic
    for k in ((0, 1, 4, 5, 8, 12) if q else range(0, 17)):
        yield 'h_tl', dict(tpl=[['id', 'hashable.vector'], ['s', 4], ['s', k]])
    for k in ((0, 3, 8) if q else (0, 1, 3, 4, 8, 12, 16)):
        yield 'h_tl', dict(tpl=[['id', 'testVectorBytes'], ['s', 4], ['s', k]])
        yield 'h_tl', dict(tpl=[['id', 'liteServer.getLibraries'], ['s', 4], ['s', k]])
    for k in ((0, 80, 84) if q else (0, 4, 79, 80, 81, 84, 160, 164)):
        yield 'h_tl', dict(tpl=[['id', 'tonNode.prepareBlocks'], ['s', 4], ['s', k]])
    for k in ((0, 12) if q else (0, 4, 12, 20)):
        yield 'h_tl', dict(tpl=[['id', 'adnl.addressList'], ['s', 4], ['s', k]])
        yield 'h_tl', dict(tpl=[['id', 'adnl.addressList'], ['s', 4], ['id', 'adnl.address.udp'], ['s', 8 + k]])
    yield 'h_tl', dict(tpl=[['id', 'adnl.nodes'], ['s', 4], ['id', 'pub.ed25519'], ['s', 32], ['s', 4],
                            ['id', 'adnl.address.udp'], ['s', 8], ['s', 16], ['s', 4]])
    yield 'h_tl', dict(tpl=[['id', 'liteServer.nonfinal.validatorGroupInfo'], ['s', 20], ['s', 4], ['s', 8]])
    # --- TL: byte strings (length prefix symbolic; nested objects are re-parsed)
    for k in ((1, 4, 8, 12) if q else range(0, 15)):
        yield 'h_tl', dict(tpl=[['id', 'liteServer.query'], ['s', k]])
    for k in ((4, 9) if q else (3, 4, 8, 9, 12)):
        yield 'h_tl', dict(tpl=[['id', 'liteServer.query'], ['c', 'fe'], ['s', k]])
        yield 'h_tl', dict(tpl=[['id', 'liteServer.query'], ['s', 1], ['id', 'liteServer.query'], ['s', k]])
        yield 'h_tl', dict(tpl=[['id', 'adnl.message.query'], ['s', 32], ['s', 1], ['id', 'liteServer.query'], ['s', k]])
    for fl in ((0x08, 0x18) if q else (0x00, 0x08, 0x18, 0x38, 0x0c, 0x808)):
        for k in ((6,) if q else (4, 6, 9)):
            # rand1 empty, concrete flags (messages vector / address lists present), the rest symbolic
            yield 'h_tl', dict(tpl=[['id', 'adnl.packetContents'], ['c', '00000000'], ['c', fl.to_bytes(4, 'little').hex()], ['s', 4], ['s', k]])
    # --- TL: every bundled constructor with a vector field, id + symbolic tail
    tl = lib()
    vec = sorted(s.name for s in tl.list if not s.is_empty() and any('vector' in t for t in s.args.values()))
    for i, name in enumerate(vec):
        if q and i % 4 != seed % 4:
            continue
        for fv in (0, 0x7fffffff):
            t = auto_tpl(name, fv, 8 if q else 12)
            if fv and not any(x[0] == 'c' and x[1] == 'ffffff7f' for x in t):
                continue
            yield 'h_tl', dict(tpl=t)
    if not q:
        allc = sorted(s.name for s in tl.list if not s.is_empty() and s.name not in vec)
        for i, name in enumerate(allc):
            if i % 5 == seed % 5:
                yield 'h_tl', dict(tpl=auto_tpl(name, 0x7fffffff, 8))
    yield 'h_tl', dict(tpl=[['s', 8]])
    # byte strings holding several objects, nested (structure concrete, a symbolic tail behind the outermost object)
    for depth in ((3, 10, 18) if q else (1, 2, 3, 6, 10, 14, 18, 24)):
        for width in (2, 3):
            yield 'h_tl', dict(tpl=[['nest', depth, width], ['s', 4]])
    # --- BoC: header and cell descriptors symbolic
    for magic in MAGICS.values():
        for k in ((2, 6, 9) if q else range(0, 11)):
            yield 'h_boc', dict(tpl=[['c', magic], ['s', k]])
    # well-formed prefix (1-byte sizes), counts and cells symbolic
    for k in ((4, 8) if q else (2, 4, 6, 8, 9, 10)):
        yield 'h_boc', dict(tpl=[['c', 'b5ee9c72' + '01' + '01'], ['s', k]])
        yield 'h_boc', dict(tpl=[['c', 'b5ee9c72' + '81' + '01'], ['s', k]])
        yield 'h_boc', dict(tpl=[['c', '68ff65f3' + '01' + '01'], ['s', k]])
    for k in ((5, 8) if q else (5, 6, 7, 8, 9, 10)):
        # flags byte, counts and the cells symbolic; off_bytes = 1 and the total size consistent with the length
        yield 'h_boc', dict(tpl=[['c', 'b5ee9c72'], ['s', 1], ['c', '01'], ['s', 3], ['c', '%02x' % (k - 5)], ['s', k - 4]])
    # counts fixed to a well-formed two-/three-cell bag, every cell byte (descriptors, data, reference indices) symbolic
    for ncells, k in (((2, 4), (3, 6)) if q else ((1, 2), (1, 3), (2, 4), (2, 5), (3, 6), (3, 7), (4, 8))):
        yield 'h_boc', dict(tpl=[['c', 'b5ee9c72' + '01' + '01' + '%02x' % ncells + '01' + '00' + '%02x' % k + '00'], ['s', k]])
        yield 'h_boc', dict(tpl=[['c', 'b5ee9c72' + '41' + '01' + '%02x' % ncells + '01' + '00' + '%02x' % k + '00'], ['s', k + 4]])
    # --- dictionary parsers: all data bits symbolic, tree shapes
    trees = {'leaf': [[]], 'fork': [[1, 2], [], []], 'fork2': [[1, 2], [3, 4], [], [], []], 'chain': [[1, 2], [], [3, 4], [], []]}
    for key_len in ((1, 8, 32) if q else (1, 2, 3, 8, 32)):
        for nb in ((8, 14) if q else (2, 5, 8, 11, 14, 16)):
            yield 'h_dict', dict(key_len=key_len, shape=trees['leaf'], nbits=[nb])
        for nbs in (([6, 4, 4],) if q else ([6, 4, 4], [9, 3, 3], [4, 6, 6], [9, 4, 4])):
            yield 'h_dict', dict(key_len=key_len, shape=trees['fork'], nbits=nbs)
        yield 'h_dict', dict(key_len=key_len, shape=trees['fork'], nbits=[6, 5, 5], aug=True)
        for t in ('fork2', 'chain'):
            yield 'h_dict', dict(key_len=key_len, shape=trees[t], nbits=[4, 3, 3, 3, 3])
            if not q:
                yield 'h_dict', dict(key_len=key_len, shape=trees[t], nbits=[5, 3, 4, 3, 3])
    for key_len in (256, 1023):
        # the label-length fields are 9 / 10 bits wide here: each value of a complete field is a path of its own, with the
        # same work; sizes are chosen so that short and long labels are complete and `same` labels run out of bits
        for nb in ((6, 11) if q else (3, 6, 9, 11)):
            yield 'h_dict', dict(key_len=key_len, shape=trees['leaf'], nbits=[nb + (key_len == 1023)])
        yield 'h_dict', dict(key_len=key_len, shape=trees['fork'], nbits=[8, 5, 5])
        yield 'h_dict', dict(key_len=key_len, shape=trees['fork'], nbits=[6, 5, 5], aug=True)
    # --- DAG families
    for fam, depths_sym, depths_leaf, depths_conc in (
            ('chain2', (3, 8), (20,), (40, 64)), ('chain4', (3,), (12,), (32,)), ('chain3mix', (4,), (16,), (40,)),
            ('ladder', (3, 5), (14,), (40,)), ('fib', (6,), (24,), (60,)), ('tree2', (), (3,), (6,)), ('chain1', (5,), (24,), (300,))):
        for d in depths_sym:
            for o in ((OPTIONS[0], OPTIONS[5]) if q else OPTIONS):
                yield 'h_dag', dict(family=fam, d=d, sym='all', opts=o)
        for d in depths_leaf:
            for o in ((OPTIONS[5],) if q else (OPTIONS[0], OPTIONS[3], OPTIONS[5])):
                yield 'h_dag', dict(family=fam, d=d, sym='leaf', opts=o)
        for d in depths_conc:
            for o in ((OPTIONS[5],) if q else (OPTIONS[0], OPTIONS[3], OPTIONS[5])):
                yield 'h_dag', dict(family=fam, d=d, sym='none', opts=o)


def twins(tier, seed):
    yield 'h_tl', dict(tpl=[['id', 'hashable.vector'], ['s', 4], ['s', 4]], twin='tiny budget')
    yield 'h_boc', dict(tpl=[['c', 'b5ee9c72'], ['s', 6]], twin='tiny budget')
    yield 'h_dict', dict(key_len=8, shape=[[]], nbits=[6], twin='tiny budget')
    yield 'h_dag', dict(family='chain2', d=3, twin='tiny budget')


for _f in (h_tl, h_boc, h_dict, h_dag):
    _f.max_paths = 40000
INSTANCE_TIMEOUT = {'quick': 200, 'thorough': 1200}
BOUNDS = {
    'work measure': 'source lines of the repository executed per call (sys.settrace line events in files under the repository)',
    'TL parser': 'input = concrete constructor id(s) at the template positions + symbolic bytes everywhere else (counts, length prefixes, '
                 'flags, contents); total length up to ~100 bytes; budget 120*len+1500 lines; all feasible paths',
    'BoC parser': 'the three magics + 0..12 symbolic bytes; well-formed 1-byte-size prefixes + symbolic counts and cells; budget 150*len+1500 lines',
    'dictionary parsers': 'tree-shaped inputs of 1..5 cells with all data bits symbolic (2..16 bits per cell), key lengths 1..1023; '
                          'budget 60*(bits+cells)+40*key_len+1500 lines',
    'DAG families': 'double/quadruple/mixed chains, ladders, Fibonacci DAGs (maximal sharing), binary trees and plain chains; depth 3..8 with all '
                    'contents symbolic, depth up to 64 (chains 200) with a symbolic leaf; budget 40*(n+e)^2+3000 lines per operation group',
}
OUTSIDE = ['cost as a function of DAG shape outside the enumerated families (shape is not a data value a solver can quantify over)',
           'dictionary cells that are DAGs (a fork whose two references are the same cell, repeated): such a bag DENOTES exponentially many keys, so no parser can stay linear in the input; the dictionary inputs here are trees',
           'time spent inside C extensions (bitarray, hashlib) and in byte-string copies - counted as one line each',
           'dictionary parsing of DAG-shaped (shared) dictionaries: the result itself is exponentially large there',
           'TL constructor ids at positions the template leaves symbolic are assumed unregistered, except the template\'s own constructors (forked)']
STUBS = ['crc32c inside the BoC code: memoised uninterpreted function', 'hashlib.sha256: injective uninterpreted function',
         'TlSchemas.id_map: lookup with symbolic bytes forks over the template\'s constructors and otherwise assumes an unregistered id']
ASSUMPTIONS = ['line counts are a faithful proxy of work for pure-Python code (every loop iteration and call executes at least one line)']
