"""C13 - address text forms round-trip and the friendly form's checksum is enforced.

Engine A on Address.__init__/is_hex/is_b64/to_str/__eq__/__hash__ with text as typed ropes and base64 as a stub
(decode(encode(x)) = x; one character = one 6-bit group).  crc16 inside the address code is a memoised uninterpreted
function; for the corruption clause the facts about it that matter are discharged on the loop body sliced from the current
source (technique B lemmas, all lengths) and composed (technique C).  The direct query (real crc16 over 34 symbolic bytes)
was tried and dropped: XOR-heavy, erratic (44..220 s or unknown per position).
"""
import sys

import z3

from sx.api import *
from sx import core as C
from pytoniq_core.boc import Address

import pytoniq_core.boc.address      # noqa
AM = sys.modules['pytoniq_core.boc.address']

PROPERTY = 'C13'
STD = 'ABCDEFGHIJKLMNOPQRSTUVWXYZabcdefghijklmnopqrstuvwxyz0123456789+/'
URL = STD[:-2] + '-_'

VARIANTS = [dict(is_user_friendly=False)] + [dict(is_url_safe=u, is_bounceable=b, is_test_only=t)
                                             for u in (True, False) for b in (True, False) for t in (True, False)]


def _with_crc_uf(ctx):
    """crc16 inside the address code := memoised uninterpreted function (symbolic mode only)"""
    if not ctx.symbolic:
        return None
    real = AM.crc16

    def stub(data):
        if isinstance(data, (bytes, bytearray)):
            return real(bytes(data))
        return C.uf_bytes('crc16', data, 2)
    AM.crc16 = stub
    return real


def h_roundtrip(ctx, variant, twin=None, wc_range=None):
    wc = ctx.sint('wc', 8)
    if wc_range:
        # the raw form writes the workchain in decimal: one instance per length of that text
        ctx.assume(And(wc >= wc_range[0], wc <= wc_range[1]))
    acc = ctx.bytes_('acc', 32)
    v = VARIANTS[variant]
    saved = _with_crc_uf(ctx)
    try:
        a = Address((wc, acc))
        text = a.to_str(**v)
        b = Address(text)
        ctx.require(And(b.wc == wc, b.hash_part == acc), 'parse(render(a)) has the same workchain and account id')
        b2 = Address(text)
        ctx.require(And(b2.wc == wc, b2.hash_part == acc, b2 == a), 'parsing the same text again gives the same address')
        ctx.require(a.to_str(**v) == text if not ctx.symbolic else True, 'rendering twice gives the same text')
        eq = a == b
        ctx.require(eq, 'parse(render(a)) == a')
        if v.get('is_user_friendly', True):
            ctx.require(b.is_bounceable == v['is_bounceable'], 'bounceable flag survives')
            ctx.require(b.is_test_only == (v['is_test_only'] if twin != 'flag' else not v['is_test_only']), 'test-only flag survives')
        from sx import hook
        if ctx.symbolic:
            hook.RAW_HASH[0] = True
        try:
            ha, hb = a.__hash__(), b.__hash__()
        finally:
            if ctx.symbolic:
                hook.RAW_HASH[0] = False
        ctx.require(ha == hb, 'equal addresses hash equally')
        # needs real text and real hash(): checked on the concrete witness runs
        ctx.require(ctx.symbolic or (hash(a) == hash(b) and len({a, b}) == 1), 'equal addresses collide as dictionary keys')
        ctx.require(ctx.symbolic or isinstance(text, str), 'rendered form is text')
    finally:
        if saved:
            AM.crc16 = saved


def h_other_equal(ctx):
    """two independently built addresses: equal exactly when workchain and account id are equal; then hashes agree"""
    a = Address((ctx.sint('wc1', 8), ctx.bytes_('acc1', 32)))
    b = Address((ctx.sint('wc2', 8), ctx.bytes_('acc2', 32)))
    same = And(a.wc == b.wc, a.hash_part == b.hash_part)
    from sx import hook
    ctx.require(Iff(a == b, same), 'equality is equality of workchain and account id')
    if ctx.symbolic:
        hook.RAW_HASH[0] = True
    try:
        ha, hb = a.__hash__(), b.__hash__()
    finally:
        if ctx.symbolic:
            hook.RAW_HASH[0] = False
    ctx.require(Implies(same, ha == hb), 'equal addresses hash equally')


def _corrupt(ctx, text_payload, pos, delta, urlsafe):
    """the friendly text of `text_payload` (36 bytes) with character `pos` replaced: XOR of its 6-bit group with delta"""
    if ctx.symbolic:
        from sx import hook
        shift = 6 * (47 - pos)
        d = C._lift(delta)                                   # 6-bit non-negative value (or the constant 0 in the twin)
        d = z3.Extract(287, 0, C._sx(d, 288)) << shift
        corr = C.mkbytes(C.Bits.of_bv(C.SymBytes.lift(text_payload).bits.bv() ^ d))
        return hook.Rope([hook.B64Text(corr, urlsafe)])
    import base64
    alpha = URL if urlsafe else STD
    t = (base64.urlsafe_b64encode if urlsafe else base64.b64encode)(text_payload).decode()
    ch = alpha[alpha.index(t[pos]) ^ delta]
    return t[:pos] + ch + t[pos + 1:]


def h_corrupt(ctx, pos, variant=1, twin=None):
    """a friendly address with character `pos` replaced by any other base64 character is rejected.
    Technique C: inside the address code crc16 is an uninterpreted function; what is known about it are exactly the
    facts discharged on the real loop body by h_crc_lemmas (a changed 6-bit group inside the data changes the
    checksum; one over the data/checksum boundary breaks the relation) - so what this harness decides is that the
    address code really compares the checksum of the first 34 bytes with the last two and raises."""
    wc = ctx.sint('wc', 8)
    acc = ctx.bytes_('acc', 32)
    delta = ctx.uint('delta', 6)
    ctx.assume(delta != 0)
    v = VARIANTS[variant]
    saved = _with_crc_uf(ctx)
    try:
        tag = (0x11 if v['is_bounceable'] else 0x51) | (0x80 if v['is_test_only'] else 0)
        body = bytes([tag]) + wc.to_bytes(1, 'big', signed=True) + acc
        crc = AM.crc16(body)
        payload = body + crc
        if twin == 'nochange':
            delta = delta - delta
        text = _corrupt(ctx, payload, pos, delta, v['is_url_safe'])
        if ctx.symbolic:
            corr = text.pieces[0].payload
            body2 = corr[:34]
            if pos <= 44:
                ctx.assume(Implies(Not(body2 == body), Not(AM.crc16(body2) == crc)))
            elif pos == 45:
                d2 = (delta & 15) << 12
                ctx.assume(Not(AM.crc16(body2) == (crc ^ d2.to_bytes(2, 'big') if not isinstance(d2, int) or d2 else crc)) if twin != 'nochange' else True)
        if twin != 'nochange':
            # the genuine text is parsed first and the corrupted text is offered more than once: the verdict on a text may
            # not depend on what was parsed before (a parse cache filled before the checksum test would show here)
            good = _corrupt(ctx, payload, pos, delta - delta, v['is_url_safe'])
            g = Address(good)
            ctx.require(And(g.wc == wc, g.hash_part == acc), 'the genuine friendly text parses')
        for attempt in (1, 2, 3):
            try:
                Address(text)
                accepted = True
            except Exception:
                accepted = False
            ctx.require(not accepted, 'friendly address with one replaced character is rejected' + ('' if attempt == 1 else ' (offered again)'))
    finally:
        if saved:
            AM.crc16 = saved


def h_hexlike(ctx, seed=0):
    """a friendly address whose 48 characters all happen to be hexadecimal digits (found by search; concrete): it parses, and
    every replacement of one character by another hexadecimal digit is rejected - a text that could be mistaken for another
    input form gets no second reading.  (Concrete enumeration over one constructed address; the solver has no part in it.)"""
    import base64
    import random
    from pytoniq_core.crypto.crc import crc16
    rnd = random.Random(seed)
    hexset = [c for c in STD if c in '0123456789abcdefABCDEF']
    text = None
    for _ in range(200000):
        head = 'E' + rnd.choice('abcdef') + ''.join(rnd.choice(hexset) for _ in range(43))
        for c45 in hexset:
            raw = base64.b64decode(head + c45 + 'AA')
            body = raw[:34]
            cand = base64.b64encode(body + crc16(body)).decode()
            if all(ch in hexset for ch in cand) and cand[:45] == head:
                text = cand
                break
        if text:
            break
    ctx.require(text is not None, 'hex-like friendly text: found one')
    if text is None:
        return
    a = Address(text)
    ctx.require(a.to_str(is_url_safe=False) == text or a.to_str() == text, 'hex-like friendly text: parses and renders back')
    bad = []
    for pos in range(48):
        for ch in hexset:
            if ch != text[pos]:
                t2 = text[:pos] + ch + text[pos + 1:]
                try:
                    Address(t2)
                    bad.append(t2)
                except Exception:
                    pass
    ctx.require(not bad, 'hex-like friendly text: every single replaced character is rejected ' + str(bad[:2]))
    ctx.observe('text', text)


def h_crc_lemmas(ctx, which):
    """technique B on the real crc16 loop body: the algebraic facts from which 'any single replaced character changes
    the checksum relation' follows for inputs of every length"""
    from harness import C18
    sl = C18.slice_fold('crc16')
    assert sl is not None
    g = C18.run_prelude(sl, ctx.symbolic)

    def step(s, b):
        g2 = dict(g)
        g2[sl['state']] = s
        g2[sl['item']] = b
        exec(C18._compile(list(sl['body']), ctx.symbolic, 'body'), g2)
        return g2[sl['state']]
    s = ctx.uint('s', 16)
    if which == 'inj_state':
        t = ctx.uint('t', 16)
        b = ctx.uint('b', 8)
        ctx.require(Implies(step(s, b) == step(t, b), s == t), 'crc16 step is injective in the register (a difference persists)')
    elif which == 'one_byte':
        b, d = ctx.uint('b', 8), ctx.uint('d', 8)
        ctx.assume(d != 0)
        ctx.require(step(s, b) != step(s, b ^ d), 'a changed byte changes the register')
    elif which == 'two_bytes':
        b1, b2, d1, d2 = ctx.uint('b1', 8), ctx.uint('b2', 8), ctx.uint('d1', 8), ctx.uint('d2', 8)
        ctx.assume(Or(d1 != 0, d2 != 0))
        # a 6-bit character straddling two bytes changes the low k bits of the first and the high 6-k bits of the second
        ctx.assume(Or(*[And((d1 >> k) == 0, (d2 & ((1 << (8 - (6 - k))) - 1)) == 0) for k in (2, 4)]))
        ctx.require(step(step(s, b1), b2) != step(step(s, b1 ^ d1), b2 ^ d2), 'a changed 6-bit group over two bytes changes the register')
    elif which == 'straddle_crc':
        # character 45 of 48: low 2 bits of the last data byte and high 4 bits of the stored checksum
        b, d1, d2 = ctx.uint('b', 8), ctx.uint('d1', 2), ctx.uint('d2', 4)
        ctx.assume(Or(d1 != 0, d2 != 0))
        ctx.require(step(s, b ^ d1) != (step(s, b) ^ (d2 << 12)), 'a changed group over the data/checksum boundary breaks the checksum relation')


def instances(tier, seed):
    for i in range(len(VARIANTS)):
        yield 'h_roundtrip', dict(variant=i)
    for rng in ((-128, -100), (-99, -10), (-9, -1), (0, 9), (10, 99), (100, 127)):
        yield 'h_roundtrip', dict(variant=0, wc_range=list(rng))
        yield 'h_roundtrip', dict(variant=1, wc_range=list(rng))
    yield 'h_other_equal', dict()
    yield 'h_hexlike', dict(seed=seed)
    for w in ('inj_state', 'one_byte', 'two_bytes', 'straddle_crc'):
        yield 'h_crc_lemmas', dict(which=w)
    from harness import C18
    if C18.slice_fold('crc16') is not None:          # the lemmas that justify the facts used in h_corrupt need the fold shape
        for pos in range(48):
            for variant in range(1, 9):
                yield 'h_corrupt', dict(pos=pos, variant=variant)


def twins(tier, seed):
    yield 'h_roundtrip', dict(variant=3, twin='flag')
    yield 'h_corrupt', dict(pos=47, twin='nochange')


INSTANCE_TIMEOUT = {'quick': 250, 'thorough': 1500}
BOUNDS = {'round trip': 'raw form and the 8 friendly variants; every workchain -128..127 and every 32-byte account id (symbolic)',
          'corruption': 'all 48 character positions x all 8 friendly variants; every non-zero 6-bit change of the '
                        'character, every workchain and account id; crc16 by lemma composition (facts discharged in h_crc_lemmas)',
          'crc lemmas': 'arbitrary register state and bytes (all lengths by induction), if crc16 has the fold shape'}
BOUNDS['hex-like text'] = 'one constructed friendly address whose 48 characters are all hexadecimal digits, all 48 x 21 replacements by another hexadecimal digit (concrete, no solver)'
OUTSIDE = ['non-canonical base64 text (padding, whitespace, mixed alphabets, characters outside the alphabet)',
           "int()'s liberal forms in the raw text ('+5', '_', whitespace)", 'text that is neither form']
STUBS = ['base64: typed text rope; decode(encode(x)) = x; one character = one 6-bit group at a fixed position; alphabet excludes ":"',
         'crc16 inside the address code: memoised uninterpreted function; the corruption harness adds the two facts about it that h_crc_lemmas discharges on the real loop body']
ASSUMPTIONS = ['the friendly text is 48 characters without padding (36 bytes)']
