"""C08 - cells are immutable values; derived objects are isolated snapshots; no hidden state.

Bounded model checking of an object pool with Engine A: a cell obtained by one of several routes (contents symbolic),
then every sequence of up to 2 (thorough: 3) operations from an alphabet of operations on derived slices, builders,
copies, the originating builder, other cells, and repeated observers; after every step every live cell must still show
the snapshot taken from an identical twin cell that was never operated on: bits, references, hash and to_boc() under
every option set.  The solver's part is the equality of contents for all values; aliasing shows as a structural change.
"""
import itertools
import random

from sx.api import *
from sx import core as C
from specs.cellspec import *
from pytoniq_core.boc import Builder, Cell, Slice
from pytoniq_core.boc.tvm_bitarray import TvmBitarray
from bitarray import bitarray

PROPERTY = 'C08'

OPTS = [dict(has_idx=i, hash_crc32=c, has_cache_bits=cb) for i in (False, True) for c in (False, True) for cb in (False, True)]
import inspect
if 'flags' in inspect.signature(Cell.to_boc).parameters:        # every parameter the serialiser has is an option of the call
    OPTS += [dict(flags=1), dict(flags=2), dict(flags=3, hash_crc32=True), dict(flags=2, has_idx=True)]


def _crc_stub(ctx):
    from harness.boc_common import install_crc_stub
    install_crc_stub(ctx)


# ------------------------------------------------------------------------------- routes: how the cell under test is obtained
def build(ctx, route, tag):
    """returns dict(cell=..., builder=originating builder or None, other=another cell)"""
    k1 = Builder().store_bits(ctx.bitstr('k1', 4)).end_cell()
    k2 = Builder().store_bits(ctx.bitstr('k2', 7)).store_ref(Builder().store_bits(ctx.bitstr('k3', 2)).end_cell()).end_cell()
    other = Builder().store_bits(ctx.bitstr('oth', 6)).end_cell()
    n = {'plain5': 5, 'plain8': 8, 'plain0': 0}.get(route, 13)
    bits = ctx.bitstr('bits', n) if n else ''
    b = None
    if route == 'builder':
        b = Builder().store_bits(bits).store_ref(k1).store_ref(k2)
        c = b.end_cell()
    elif route == 'builder_to_cell':
        b = Builder().store_bits(bits).store_ref(k1).store_ref(k2)
        c = b.to_cell() if hasattr(b, 'to_cell') else b.end_cell()
    elif route.startswith('plain'):
        c = Cell(bitarray(bits) if n else bitarray(), [k1, k2])
    elif route == 'tvm':
        c = Cell(TvmBitarray(1023, bitarray(bits)), [k1, k2])
    elif route == 'boc':
        c = Cell.one_from_boc(Builder().store_bits(bits).store_ref(k1).store_ref(k2).end_cell().to_boc())
    elif route == 'slice':
        s = Builder().store_bits(cat_bits('101', bits)).store_ref(other).store_ref(k1).store_ref(k2).end_cell().begin_parse()
        s.skip_bits(3)
        s.load_ref()
        c = s.to_cell()
    elif route == 'copy':
        c = Builder().store_bits(bits).store_ref(k1).store_ref(k2).end_cell().copy()
    else:
        raise ValueError(route)
    return dict(cell=c, builder=b, other=other, bits=bits, kids=[k1, k2])


def observe(cell, rev=False):
    """everything the property says must never change (values may be symbolic).  The serialisations are requested in
    a different order on the twin and on the cell under test: a result must not depend on the calls made before."""
    idx = list(range(len(OPTS)))
    bocs = {}
    for i in (idx[::-1] if rev else idx):
        bocs[i] = cell.to_boc(**OPTS[i])
    return dict(bits=cell.bits.to01(), nbits=len(cell.bits), refs=[r.hash for r in cell.refs], hash=cell.hash,
                depth=cell.get_depth(), bocs=[bocs[i] for i in idx],
                kids=[(r.bits.to01(), [x.hash for x in r.refs]) for r in cell.refs])


def same_obs(a, b):
    if a['nbits'] != b['nbits'] or len(a['refs']) != len(b['refs']) or len(a['kids']) != len(b['kids']):
        return False
    ok = And(a['bits'] == b['bits'], a['hash'] == b['hash'], a['depth'] == b['depth'])
    for x, y in zip(a['refs'], b['refs']):
        ok = And(ok, x == y)
    for x, y in zip(a['bocs'], b['bocs']):
        if len(x) != len(y):
            return False
        ok = And(ok, x == y)
    for (xb, xr), (yb, yr) in zip(a['kids'], b['kids']):
        if len(xb) != len(yb) or len(xr) != len(yr):
            return False
        ok = And(ok, xb == yb, *[p == q for p, q in zip(xr, yr)])
    return ok


# ------------------------------------------------------------------------------- operations
def op_slice_consume(P):
    s = P['cell'].begin_parse()
    if s.remaining_bits >= 3:
        s.load_bits(3)
    if s.remaining_bits >= 2:
        s.load_uint(2)
    if s.remaining_refs:
        s.load_ref()
    P['slice'] = s


def op_slice_drain(P):
    s = P['cell'].begin_parse()
    s.skip_bits(s.remaining_bits)
    while s.remaining_refs:
        s.load_ref()


def op_slice_containers(P):
    s = P['cell'].begin_parse()
    s.bits.extend('1101')
    s.refs.append(P['other'])
    del s.refs[0]


def op_slice_to_cell_builder(P):
    s = P.get('slice') or P['cell'].begin_parse()
    c2 = s.to_cell()
    b2 = s.to_builder()
    b2.store_bits('11').store_ref(P['other'])
    c2.begin_parse().load_ref() if c2.refs else None
    s.copy().skip_bits(min(1, s.remaining_bits))


def op_to_builder_store(P):
    b = P['cell'].to_builder()
    b.store_bits('10101')
    b.store_ref(P['other'])
    P['derived_builder'] = b


def op_to_builder_end(P):
    b = P['cell'].to_builder()
    c2 = b.end_cell()
    b.store_uint(5, 3).store_ref(P['other'])
    P['cell2'] = c2          # a second live cell: must stay what it was, too


def op_origin_builder(P):
    b = P['builder']
    if b is not None:
        b.store_bits('111')
        b.store_ref(P['other'])
        b.end_cell()


def _origin_first(write):
    def op(P):
        b = P['builder']
        if b is not None:
            write(b, P)
            b.end_cell()
    return op


# the first write after end_cell() through each family of store methods (they do not all reach the bits the same way)
op_origin_uint = _origin_first(lambda b, P: b.store_uint(5, 3))
op_origin_bytes = _origin_first(lambda b, P: b.store_bytes(b'\x5a'))
op_origin_coins = _origin_first(lambda b, P: b.store_coins(300))
op_origin_ref = _origin_first(lambda b, P: b.store_ref(P['other']))
op_origin_addr = _origin_first(lambda b, P: b.store_address(None))
for _n, _f in (('origin_uint', op_origin_uint), ('origin_bytes', op_origin_bytes), ('origin_coins', op_origin_coins), ('origin_ref', op_origin_ref),
               ('origin_addr', op_origin_addr)):
    _f.__name__ = 'op_' + _n


def op_copy_then_mutate(P):
    cp = P['cell'].copy()
    cp.to_builder().store_ref(P['other'])
    s = cp.begin_parse()
    s.skip_bits(min(4, s.remaining_bits))
    s.refs.append(P['other'])
    P['cell3'] = cp


def op_boc_opts(P):
    c = P['cell']
    c.to_boc(has_cache_bits=True)
    c.to_boc()
    c.to_boc(has_idx=True, hash_crc32=True)
    c.to_boc(has_idx=True, has_cache_bits=True)
    if len(OPTS) > 8:
        c.to_boc(flags=2)
        c.to_boc()


def op_boc_other_first(P):
    P['other'].to_boc(has_idx=True)
    Builder().store_ref(P['cell']).store_ref(P['other']).end_cell().to_boc(hash_crc32=True)


def op_order_hash(P):
    c = P['cell']
    if hasattr(c, 'order'):
        c.order()
        P['other'].order()
    hash(c) if not isinstance(c.hash, C.SymBytes) else c.__hash__()
    c.calculate_representation_hash() if hasattr(c, 'calculate_representation_hash') else None
    c.get_representation() if hasattr(c, 'get_representation') else None


def op_parent(P):
    par = Builder().store_bits('1').store_ref(P['cell']).store_ref(P['cell']).end_cell()
    s = par.begin_parse()
    s.load_ref().begin_parse().skip_bits(0)
    par.to_boc(has_idx=True)
    P['parent'] = par


def op_store_cell_slice(P):
    b = Builder().store_bits('0110')
    b.store_cell(P['cell']) if len(P['cell'].refs) <= 4 else None
    b.store_ref(P['other']) if b.available_refs else None
    b2 = Builder().store_slice(P['cell'].begin_parse())
    b2.store_bits('1')


def op_hashmap(P):
    from pytoniq_core.boc.hashmap import HashMap
    hm = HashMap(4, value_serializer=lambda src, dest: dest.store_ref(src))
    hm.set_int_key(3, P['cell']).set_int_key(9, P['other'])
    d = hm.serialize()
    back = HashMap.parse(d.begin_parse(), 4)
    for s in back.values():
        s.load_ref()


def op_vmstack(P):
    from pytoniq_core.tlb.vm_stack import VmStack, VmTuple
    data = [P['cell'], P['cell'].begin_parse(), VmTuple([P['cell'], 5]), P['cell'].to_builder(), VmTuple([7]), VmTuple([])]
    VmStack.serialize(data)
    c = VmStack.serialize(data)
    one = VmStack.deserialize(c.begin_parse())
    two = VmStack.deserialize(c.begin_parse())
    shape = lambda r: [len(x.list) if isinstance(x, VmTuple) else type(x).__name__ for x in r]
    if shape(one) != shape(two) or shape(two) != ['Cell', 'Slice', 2, 'Builder', 1, 0]:
        P['vm_mismatch'] = (shape(one), shape(two))


OPS = {f.__name__[3:]: f for f in (op_slice_consume, op_slice_drain, op_slice_containers, op_slice_to_cell_builder, op_to_builder_store,
                                   op_to_builder_end, op_origin_builder, op_origin_uint, op_origin_bytes, op_origin_coins, op_origin_ref, op_origin_addr, op_copy_then_mutate, op_boc_opts, op_boc_other_first,
                                   op_order_hash, op_parent, op_store_cell_slice, op_hashmap, op_vmstack)}
ROUTES = ['builder', 'builder_to_cell', 'plain5', 'plain8', 'plain0', 'tvm', 'boc', 'slice', 'copy']


def h_pool(ctx, route, ops, twin=None):
    _crc_stub(ctx)
    T = build(ctx, route, 't')           # the twin: observed only
    snap = observe(T['cell'])
    P = build(ctx, route, 'p')           # same symbolic contents (inputs are named, so both see the same values)
    ctx.require(same_obs(observe(P['cell'], rev=True), snap), 'two cells built the same way show the same hash, bits, references and serialisations')
    extra = {}
    for i, name in enumerate(ops):
        OPS[name](P)
        if twin == 'mutate' and i == 0:
            P['cell'].bits.append(1) if False else P['cell'].refs.append(P['other'])
        ctx.require(same_obs(observe(P['cell'], rev=(i % 2 == 0)), snap), f'the cell is unchanged after {name}')
        ctx.require('vm_mismatch' not in P, 'parsing one stack cell twice gives the same values both times')
        for k in ('cell2', 'cell3', 'parent'):
            if k in P:
                if k not in extra:
                    extra[k] = observe(P[k])
                else:
                    ctx.require(same_obs(observe(P[k]), extra[k]), f'a derived cell is unchanged after {name}')
    ctx.require(same_obs(observe(T['cell']), snap), 'observing any number of times gives identical results')
    ctx.require(same_obs(observe(T['other']), observe(P['other'])), 'the other cell is unchanged')
    ctx.observe('nbits', snap['nbits'])


def instances(tier, seed):
    rnd = random.Random(seed)
    names = list(OPS)
    for r in ROUTES:
        yield 'h_pool', dict(route=r, ops=[])
        for o in names:
            yield 'h_pool', dict(route=r, ops=[o])
    pairs = list(itertools.product(names, repeat=2))
    for r in ROUTES:
        ps = pairs if tier == 'thorough' else rnd.sample(pairs, 14)
        for p in ps:
            yield 'h_pool', dict(route=r, ops=list(p))
    if tier == 'thorough':
        trip = list(itertools.product(names, repeat=3))
        for r in ROUTES:
            for p in rnd.sample(trip, 60):
                yield 'h_pool', dict(route=r, ops=list(p))


def twins(tier, seed):
    yield 'h_pool', dict(route='builder', ops=['boc_opts'], twin='mutate')


INSTANCE_TIMEOUT = {'quick': 200, 'thorough': 900}
BOUNDS = {
    'routes': ', '.join(ROUTES) + ' (13 data bits / 5, 8 and 0 bits for plain bit arrays, 2 references with a grandchild), contents symbolic',
    'operations': ', '.join(OPS),
    'sequences': 'length 0 and 1: all; length 2: 14 seeded pairs per route (quick) / all 225 (thorough); length 3: 60 seeded per route (thorough)',
    'observed': 'bits, length, reference hashes, children bits, hash, depth, to_boc under all 8 option sets and 4 values of its flags parameter - against a twin cell that is only observed',
}
OUTSIDE = ['operation sequences longer than 3', 'multi-threaded use']
STUBS = ['crc32c inside the BoC code: memoised uninterpreted function', 'hashlib.sha256: injective uninterpreted function']
ASSUMPTIONS = ['direct assignment to attributes of a cell (cell.bits = ..., cell.refs.append) by the caller is not an "operation on derived objects" and is not performed']
