"""C10 - dictionaries use the canonical TON Hashmap encoding; the parsers accept every valid encoding.

 * kernel: the real detect_label_type driven with a label of SYMBOLIC length n and key size m (0 <= n <= m <= 1023) and a
   symbolic "all bits equal" flag: the chosen label kind equals TON's rule for all 1 049 600 triples;
 * label writer: for enumerated (n, m) with symbolic label bits the emitted header and bits are the canonical label;
 * whole trees: serialize() has exactly the structure (bits and references, recursively) and the hash of the canonical
   Patricia tree built by specs/dictspec.py;
 * parsers: trees produced by the specification with EVERY valid label kind per edge, plain and augmented, with every
   set of sub-trees replaced by pruned branches, are decoded to all leaves (and extras) of the non-pruned part.
"""
import itertools
import random

from harness.dict_common import *

PROPERTY = 'C10'
U = hm_mod('utils')
P = hm_mod('parse')


# ------------------------------------------------------------------------------- kernel: label kind for symbolic (n, m)
class AbsLabel:
    """a label of symbolic length; only its length is observable"""
    def __init__(self, n):
        self.n = n

    def __sx_len__(self):
        return self.n

    def __len__(self):
        return self.n


def h_kind_kernel(ctx, twin=None):
    n = ctx.uint('n', 10)
    m = ctx.uint('m', 10)
    same = ctx.boolean('same')
    ctx.assume(n <= m)
    ctx.assume(Implies(n <= 1, same))          # labels of length 0 and 1 have all bits equal
    label = AbsLabel(n)
    saved = U.is_same
    U.is_same = lambda src: same
    try:
        kind = U.detect_label_type(label, m)
    finally:
        U.is_same = saved
    k = m.bit_length() if not isinstance(m, int) else m.bit_length()
    want_same = And(same, n > 1, 3 + k < 2 * n + 2)
    if twin == 'tie':
        want_same = And(same, n > 1, 3 + k <= 2 * n + 2)
    want_long = And(Not(want_same), k < n)
    ctx.require(Iff(kind == 'same', want_same), 'kernel: same exactly when TON chooses it')
    ctx.require(Iff(kind == 'long', want_long), 'kernel: long exactly when TON chooses it')
    ctx.require(Iff(kind == 'short', And(Not(want_same), Not(want_long))), 'kernel: short otherwise')


h_kind_kernel.max_paths = 4000


def h_label(ctx, n, m, fix=None):
    """write_label on a label of n symbolic bits under key size m: exactly the canonical encoding"""
    if fix == 'same':
        label = ctx.bitstr('bit', 1) * n                    # all bits equal to one symbolic bit
    elif n <= 24:
        label = ctx.bitstr('label', n) if n else ''
    else:                                                   # long labels: symbolic at both ends, concrete alternating middle
        label = cat_bits(ctx.bitstr('head', 8), ('10' * n)[:n - 16], ctx.bitstr('tail_', 8))
    b = Builder()
    U.write_label(label, m, b)
    got = b.end_cell().bits.to01()
    kind = D.canon_kind(label, m)
    ctx.require(got == D.enc_label(label, m, kind), 'label: emitted bits are the canonical label')
    ctx.require(U.is_same(label) == D.all_same(label), 'label: all-equal detection')
    # and the reader returns it, under every valid kind
    tail = ctx.bitstr('tail', 3)
    for kd in D.valid_kinds(label, m):
        s = Builder().store_bits(cat_bits(D.enc_label(label, m, kd), tail)).end_cell().begin_parse()
        ln, bits = P.deserialize_hml(s, m)
        ctx.require(And(ln == n, bits.to01() == label), f'label reader: {kd} label decoded')
        ctx.require(s.bits.to01() == tail, f'label reader: {kd} label consumed exactly')


# ------------------------------------------------------------------------------- whole trees
def h_canon(ctx, width, keys, vk='u8'):
    V = vkind(vk)
    uniq = sorted(set(keys))
    vals = {k: V.make(ctx, f'v{k}') for k in uniq}
    hm = V.conf(HashMap(width))
    for k in keys:
        hm.set_int_key(k, vals[k])
    cell = hm.serialize()
    spec = D.encode(D.build([(keybits(k, width), vals[k]) for k in uniq]), width, V.enc)
    warm(spec)
    ctx.require(same_structure(cell, spec), 'canonical tree: bits and references of every cell')
    ctx.require(cell.hash == cell_hash(spec, 3), 'canonical tree: hash equals the reference hash')
    ctx.observe('root', cell.bits.to01())


def h_canon_steps(ctx, width, keys, steps, via_map=False):
    """the cell is the canonical tree of the map AS IT STANDS: one map object (optionally built over a mapping its owner keeps,
    map_=...) serialised, changed through set_int_key / the mapping itself, serialised again - compared with the reference
    encoding of the current pairs after every step"""
    cur, n = {}, [0]

    def fresh_val():
        n[0] += 1
        return ctx.uint(f'v{n[0]}', 8)
    owner = {}
    hm = HashMap(width, map_=owner).with_uint_values(8) if via_map else HashMap(width).with_uint_values(8)
    for k in keys:
        cur[k] = fresh_val()
        if via_map:
            owner[k] = cur[k]
        else:
            hm.set_int_key(k, cur[k])

    def check(tag):
        cell = hm.serialize()
        if not cur:
            ctx.require(cell is None, f'canonical after changes: empty map is no cell ({tag})')
            return
        spec = warm(D.encode(D.build([(keybits(k, width), cur[k]) for k in sorted(cur)]), width, lambda v: (enc_uint(v, 8), [])))
        ctx.require(cell is not None and cell.hash == cell_hash(spec, 3), f'canonical after changes: hash equals the reference hash of the current map ({tag})')
    check('first')
    for st in steps:
        if st[0] == 'int':
            cur[st[1]] = fresh_val()
            hm.set_int_key(st[1], cur[st[1]])
        elif st[0] == 'owner':
            cur[st[1]] = fresh_val()
            (owner if via_map else hm.map)[st[1]] = cur[st[1]]
        elif st[0] == 'del':
            del hm.map[st[1]]
            del cur[st[1]]
        check('after ' + st[0])


def h_canon_addr(ctx, n=1):
    """maps keyed by Address objects (267-bit keys: addr_std$10 no anycast, workchain int8, account id): the cell equals the
    reference encoding over the TL-B bits of the addresses - for every workchain, negative ones included"""
    from pytoniq_core.boc import Address
    items, hm = [], HashMap(267).with_uint_values(8)
    for i in range(n):
        # (the workchain byte is the symbolic window of the 267-bit key; a fully symbolic key costs a fork per key bit)
        wc, acc, v = ctx.sint(f'wc{i}', 8), bytes((37 * j + 11 + i) & 0xff for j in range(32)), ctx.uint(f'v{i}', 8)
        if i:
            pass
        hm.set(Address((wc, acc)), v)
        items.append((enc_addr_std(wc, acc), v, wc, acc))
    cell = hm.serialize()
    spec = warm(D.encode(D.build([(k, v) for k, v, _, _ in items]), 267, lambda v: (enc_uint(v, 8), [])))
    ctx.require(cell.hash == cell_hash(spec, 3), 'address keys: hash equals the reference hash over the TL-B bits of the addresses')


h_canon_addr.symkeys = True


def h_canon_symkeys(ctx, width, nk, win=None, pos=0):
    """canonical structure with symbolic keys: the specification forks on the same key relations"""
    keys = []
    for i in range(nk):
        if win is None:
            keys.append(ctx.uint(f'k{i}', width))
        else:
            base = int(('10' * width)[:width], 2) & ~(((1 << win) - 1) << pos)
            keys.append(base + (ctx.uint(f'k{i}', win) << pos))
    for a, b in itertools.combinations(keys, 2):
        ctx.assume(a != b)
    vals = [ctx.uint(f'v{i}', 8) for i in range(nk)]
    hm = HashMap(width).with_uint_values(8)
    for k, v in zip(keys, vals):
        hm.set_int_key(k, v)
    cell = hm.serialize()
    items = [(bits_of_uint(k, width), v) for k, v in zip(keys, vals)]
    spec = warm(D.encode(D.build(items), width, lambda v: (enc_uint(v, 8), [])))
    ctx.require(same_structure(cell, spec), 'canonical tree (symbolic keys): bits and references of every cell')


h_canon_symkeys.symkeys = True
h_canon_symkeys.max_paths = 20000


# ------------------------------------------------------------------------------- parsers on every valid encoding
def _tree(ctx, width, keys, aug):
    items = []
    for k in sorted(keys):
        items.append((keybits(k, width), ctx.uint(f'v{k}', 8)))
    root = D.build(items)
    tags = {}
    if aug:
        # every node's extra: a concrete tag (position in pre-order) in the high bits, symbolic low bits
        for i, (path, e) in enumerate(D.edges(root)):
            tags[id(e.node)] = (i, ctx.uint(f'x{i}', 8))
    return root, tags


def _prune_sets(root):
    """every antichain of non-root edges (sub-trees to replace by pruned branches)"""
    paths = [p for p, _ in D.edges(root) if p]
    out = [()]
    for r in range(1, len(paths) + 1):
        for combo in itertools.combinations(paths, r):
            if all(not (a != b and b.startswith(a)) for a in combo for b in combo):
                out.append(combo)
    return out


def _apply_prune(edge, prune, path=''):
    if path in prune:
        return D.Pruned(edge)
    if isinstance(edge.node, D.Fork):
        return D.Edge(edge.label, _ForkKeep(edge.node, _apply_prune(edge.node.left, prune, path + '0'),
                                            _apply_prune(edge.node.right, prune, path + '1')))
    return edge


class _ForkKeep(D.Fork):
    """a fork that remembers the node it was copied from (extras are keyed by the original node)"""
    def __init__(self, orig, left, right):
        super().__init__(left, right)
        self.orig = orig


def _orig(node):
    return getattr(node, 'orig', node)


def n_kind_assignments(width, keys):
    root = D.build([(keybits(k, width), 0) for k in sorted(keys)])
    n = 1
    m_of = {}
    _edge_sizes(root, width, '', m_of)
    for path, e in D.edges(root):
        n *= len(D.valid_kinds(e.label, m_of[path]))
    return n


def _edge_sizes(edge, m, path, out):
    out[path] = m
    if isinstance(edge.node, D.Fork):
        m2 = m - len(edge.label) - 1
        _edge_sizes(edge.node.left, m2, path + '0', out)
        _edge_sizes(edge.node.right, m2, path + '1', out)


def h_parse_valid(ctx, width, keys, assign=0, aug=False, prune=(), via='parse', twin=None, xrefs=False):
    root, tags = _tree(ctx, width, keys, aug)
    m_of = {}
    _edge_sizes(root, width, '', m_of)
    # the assign-th assignment of valid label kinds to edges (mixed radix)
    kinds, a = {}, assign
    for path, e in D.edges(root):
        vk = D.valid_kinds(e.label, m_of[path])
        kinds[path] = vk[a % len(vk)]
        a //= len(vk)
    pr = _apply_prune(root, set(prune))

    def extra_enc(node):
        tag, low = tags[id(_orig(node))]
        return cat_bits(enc_uint(tag, 8), enc_uint(low, 8))
    xcells = {}
    if aug and xrefs:
        # augmentation values that own a reference (like a CurrencyCollection with extra currencies): in a fork the children
        # are references 0 and 1 and the extra's reference comes third; in a leaf it precedes the value's references
        def enc(edge, m, path):
            if isinstance(edge, D.Pruned):
                from specs.cellspec import prune as _pr
                return _pr(enc(edge.edge, m, path))
            bits = D.enc_label(edge.label, m, kinds[path])
            node = edge.node
            tag, low = tags[id(_orig(node))]
            xc = xcells.setdefault(tag, SC(ORD, ctx.bitstr(f'xr{tag}', 4), []))
            xb = cat_bits(enc_uint(tag, 8), enc_uint(low, 8))
            m2 = m - len(edge.label)
            if isinstance(node, D.Leaf):
                return SC(ORD, cat_bits(bits, xb, enc_uint(node.value, 8)), [xc])
            return SC(ORD, cat_bits(bits, xb), [enc(node.left, m2 - 1, path + '0'), enc(node.right, m2 - 1, path + '1'), xc])
        spec = warm(enc(pr, width, ''))
    else:
        spec = warm(D.encode(pr, width, lambda v: (enc_uint(v, 8), []), lambda path, label, m: kinds[path],
                             extra_enc if aug else None))
    cell = to_real(spec)
    expect = [(k, leaf.value) for k, leaf, pruned in D.leaves(pr) if not pruned]
    if twin == 'drop':
        expect = expect[1:]
    if not aug:
        if via == 'parse':
            res = HashMap.parse(cell.begin_parse(), width, None, lambda s: s.load_uint(8))
        else:
            s = Builder().store_dict(cell).end_cell().begin_parse()
            res = s.load_dict(width, None, lambda s: s.load_uint(8))
        got = list(res.items())
        ctx.require(len(got) == len(expect), 'plain parser: number of leaves of the non-pruned part')
        for (gk, gv), (k, v) in zip(got, expect):
            ctx.require(gk == int(k, 2), 'plain parser: key')
            ctx.require(gv == v, 'plain parser: value')
        return
    xd = lambda s: s.load_uint(8)
    yd = lambda s: s.load_uint(16)
    got_xrefs = []
    if xrefs:
        def yd(s):
            v = s.load_uint(16)
            got_xrefs.append((v, s.load_ref()))
            return v
    if via == 'parse':
        res, extras = P.parse_hashmap_aug(cell.begin_parse(), width, xd, yd)
    else:
        s = Builder().store_bit(1).store_ref(cell).store_uint(0xABCD, 16).end_cell().begin_parse()
        res, extras = s.load_hashmap_aug_e(width, xd, yd)
    got = list(res.items())
    ctx.require(len(got) == len(expect), 'augmented parser: number of leaves of the non-pruned part')
    for (gk, gv), (k, v) in zip(got, expect):
        ctx.require(gk == int(k, 2), 'augmented parser: key')
        ctx.require(gv == v, 'augmented parser: value')
    want = {}
    for node in D.extras_postorder(pr):
        tag, low = tags[id(_orig(node))]
        want[tag] = low
    ctx.require(len(extras) == len(want), 'augmented parser: number of augmentation values')
    seen = set()
    for x in extras:
        tag = x >> 8
        tag = tag if isinstance(tag, int) else int(tag)
        ctx.require(tag in want and tag not in seen, 'augmented parser: augmentation value belongs to a node of the non-pruned part')
        seen.add(tag)
        if tag in want:
            ctx.require((x & 0xff) == want[tag], 'augmented parser: augmentation value')
    for v, rc in got_xrefs:
        tag = v >> 8
        tag = tag if isinstance(tag, int) else int(tag)
        ctx.require(tag in xcells and rc.bits.to01() == xcells[tag].bits and len(rc.refs) == 0, 'augmented parser: the reference owned by an augmentation value is its own')


# ------------------------------------------------------------------------------- instances
M_SET = [0, 1, 2, 3, 4, 5, 7, 8, 9, 15, 16, 17, 31, 32, 63, 64, 127, 128, 255, 256, 267, 511, 512, 1023]


def instances(tier, seed):
    rnd = random.Random(seed)
    if hasattr(U, 'detect_label_type') and hasattr(U, 'is_same'):
        yield 'h_kind_kernel', dict()
    ms = M_SET if tier == 'thorough' else [0, 1, 2, 3, 4, 7, 8, 16, 32, 64, 256, 267, 1023]
    for m in ms:
        ns = sorted({n for n in (0, 1, 2, 3, 4, 5, 6, 7, 8, 9, 10, 11, 12, m - 1, m) if 0 <= n <= m and n <= 400})
        if tier == 'quick':
            ns = [n for n in ns if n <= 6 or n >= m - 1]
        for n in ns:
            yield 'h_label', dict(n=n, m=m)
            if n > 1:
                yield 'h_label', dict(n=n, m=m, fix='same')
    n = 0
    for width in (1, 2, 3):
        for ks in key_sets(width):
            n += 1
            yield 'h_canon', dict(width=width, keys=list(orders(ks, n)[n % 2]), vk=['u8', 'u64', 'cell'][n % 3])
    w4 = rnd.sample(list(key_sets(4)), 120 if tier == 'quick' else 3000)
    for width in (8, 32, 64, 256, 267, 1023):
        top = (1 << width) - 1
        for ks in ([0], [top], [0, top], [0, 1], [top, top - 1], [0, 1, 2, 3], [0, top, top - 1, 1 << (width - 1), 1, 1 << (width // 2)],
                   [top >> 1, top >> 2, top >> 3]) + \
                (([int(('10' * width)[:width], 2), int(('01' * width)[:width], 2)],) if width <= 267 else ()):
            yield 'h_canon', dict(width=width, keys=ks)
    yield 'h_canon_addr', dict(n=1)
    for via_map in (False, True):
        for keys, steps in (([5, 200], [['int', 77]]), ([5, 200], [['owner', 77]]), ([1, 4, 6], [['del', 4]]), ([3], [['owner', 3], ['del', 3], ['int', 9]]),
                            ([0, 255], [['int', 0], ['owner', 128], ['del', 255]])):
            yield 'h_canon_steps', dict(width=8, keys=keys, steps=steps, via_map=via_map)
    for vk in ('i16', 'coins', 'addr'):
        yield 'h_canon', dict(width=5, keys=[31, 16] if vk == 'coins' else [31, 0, 16, 17, 3], vk=vk)
    for width in ((2, 3, 4) if tier == 'quick' else (1, 2, 3, 4, 5, 6)):
        yield 'h_canon_symkeys', dict(width=width, nk=2)
    if tier == 'thorough':
        yield 'h_canon_symkeys', dict(width=3, nk=3)
    for (w, win, pos) in ([(32, 4, 0), (64, 4, 30)] if tier == 'quick' else
                          [(w, 6, p) for w in (16, 32, 64, 256, 267, 900) for p in (0, (w - 6) // 2, w - 6)]):
        yield 'h_canon_symkeys', dict(width=w, nk=2, win=win, pos=pos)
    # parsers: every valid label-kind assignment x every antichain of pruned sub-trees
    trees = [(1, [0, 1]), (2, [0, 3]), (2, [1, 2, 3]), (3, [0, 7]), (3, [2, 3, 6]), (3, [0, 1, 6, 7]), (4, [0, 15]), (4, [5, 6, 7, 12]),
             (8, [0, 255]), (8, [0, 1, 128, 255]), (8, [15, 240]), (32, [0, 1, (1 << 32) - 1]), (32, [0xffff0000, 0xffff0001, 0x0000ffff]),
             (1, [1]), (3, [5]), (8, [0]), (8, [255]), (32, [0])]
    for (width, keys) in trees:
        root = D.build([(keybits(k, width), 0) for k in sorted(keys)])
        prunes = _prune_sets(root)
        na = n_kind_assignments(width, keys)
        combos = [(a, p) for a in range(na) for p in prunes]
        if tier == 'quick' and len(combos) > 24:
            combos = rnd.sample(combos, 24)
        elif len(combos) > 200:
            combos = rnd.sample(combos, 200)
        for i, (a, p) in enumerate(combos):
            for aug in (False, True):
                yield 'h_parse_valid', dict(width=width, keys=keys, assign=a, aug=aug, prune=list(p), via=('parse', 'wrapper')[i % 2])
            if i % 3 == 0 or tier == 'thorough':
                yield 'h_parse_valid', dict(width=width, keys=keys, assign=a, aug=True, prune=list(p), via=('parse', 'wrapper')[(i // 3) % 2], xrefs=True)
    # the bulk family last, so that a wall-clock cap never cuts the scenarios above
    for ks in w4:
        yield 'h_canon', dict(width=4, keys=list(ks))


def twins(tier, seed):
    yield 'h_kind_kernel', dict(twin='tie')
    yield 'h_parse_valid', dict(width=3, keys=[2, 3, 6], twin='drop')


INSTANCE_TIMEOUT = {'quick': 200, 'thorough': 1200}
BOUNDS = {
    'label kind kernel': 'all 0 <= n <= m <= 1023 and both values of the all-equal flag (symbolic), if detect_label_type/is_same exist',
    'label writer/reader': 'key sizes ' + str(M_SET) + ' (quick: a subset), label lengths 0..12, m-1, m; label bits symbolic (labels longer than 24 bits: 8 symbolic bits at each end), plus all-equal labels of a symbolic bit',
    'canonical trees': 'every key set of widths 1..3, width 4 (quick: 120 seeded sets; thorough: 3 000 seeded sets of the 65 535), selected sets of widths 8..1023; '
                       'symbolic keys as in C09',
    'parsers': '18 trees of up to 4 leaves (widths 1..32): every valid label kind assignment x every antichain of pruned sub-trees '
               '(quick: 24 seeded combinations per tree; thorough: up to 600), plain and augmented, direct and through the HashmapE/HashmapAugE wrapper',
}
OUTSIDE = ['maps whose labels cannot fit a cell at all (e.g. two unrelated 1023-bit keys: 2+10+1022 label bits) - not representable in TON either', 'trees with more than 4 leaves in the every-encoding parser check', 'augmentation values other than fixed-width integers']
STUBS = ['hashlib.sha256: injective uninterpreted function']
ASSUMPTIONS = ['specs/dictspec.py (label rule of the reference node: same iff n>1 and 3+k<2n+2; long iff k<n; else short)',
               'the order of augmentation values is not part of the property: they are matched by node']
