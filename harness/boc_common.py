"""Shared pieces of the bag-of-cells harnesses (C03, C04, C05, C19): DAG enumeration, symbolic DAG construction,
CRC stubs (technique C), structural comparison."""
import itertools
import sys

from sx.api import *
from sx import core as C
from specs.cellspec import *
from specs import bocspec

OPTIONS = [dict(has_idx=i, hash_crc32=c, has_cache_bits=cb) for i in (False, True) for c in (False, True)
           for cb in (False, True) if not (cb and not i)]
LENS = [5, 8, 0, 13, 3, 16, 1, 7]


def opt_name(o):
    return ''.join(k[0] if v else '-' for k, v in (('idx', o['has_idx']), ('crc', o['hash_crc32']), ('bits', o['has_cache_bits'])))


def enum_dags(n, max_out=3):
    """all rooted DAG shapes with n cells in topological numbering (root 0, refs to larger indices, ordered ref lists
    with repetition, every cell reachable)"""
    out = []
    choices = []
    for i in range(n):
        later = list(range(i + 1, n))
        cs = [()]
        for k in range(1, max_out + 1):
            cs += list(itertools.product(later, repeat=k))
        choices.append(cs)
    for combo in itertools.product(*choices):
        reach = {0}
        for i in range(n):
            if i in reach:
                reach.update(combo[i])
        if len(reach) == n:
            out.append([list(c) for c in combo])
    return out


def family_dags():
    fam = {}
    for d in (1, 2, 5, 8):
        fam[f'chain{d}'] = [[i + 1] for i in range(d)] + [[]]
    fam['diamond2'] = [[1, 2], [3], [3], []]
    fam['diamond_k3'] = [[1, 2, 3], [4], [4], [4], []]
    fam['double_share'] = [[1, 1], [2, 2], [3, 3], []]
    fam['fan4'] = [[1, 2, 3, 4], [], [], [], []]
    fam['fan4_same'] = [[1, 1, 1, 1], []]
    fam['skip'] = [[1, 3], [2], [3], []]
    return fam


def build_dag(ctx, shape, lens=None, twins=()):
    """spec cells for a DAG shape, all contents symbolic; `twins` = pairs of leaf indices given equal lengths so
    that they MAY be equal (the library's de-duplication fork is then explored both ways)"""
    n = len(shape)
    lens = list(lens) if lens else [LENS[i % len(LENS)] for i in range(n)]
    for a, b in twins:
        lens[b] = lens[a]
    cells = [None] * n
    for i in reversed(range(n)):
        cells[i] = SC(ORD, ctx.bitstr(f'c{i}', lens[i]), [cells[j] for j in shape[i]])
    warm(cells[0])
    return cells


def install_crc_stub(ctx, mode='uf'):
    """technique C: inside the BoC code the CRC is replaced by (uf) a memoised uninterpreted function of its
    argument - enough for round trips and span checks - or (bitwise) its bitwise definition (C18 shows the real
    function equals it).  Concrete arguments always go to the real function.  Returns the function to use as oracle."""
    if not ctx.symbolic:
        from pytoniq_core.crypto.crc import crc32c
        return crc32c
    real = sys.modules['pytoniq_core.crypto.crc'].crc32c

    def stub(data, byteorder='little'):
        if isinstance(data, (bytes, bytearray)):
            return real(bytes(data), byteorder)
        if mode == 'uf':
            r = C.uf_bytes('crc32c', data, 4)
        else:
            from harness.C18 import ref_crc
            r = ref_crc('crc32c', data, 'little')
        return r if byteorder == 'little' else r[::-1]
    for m in ('pytoniq_core.boc.cell', 'pytoniq_core.boc.deserialize'):
        if hasattr(sys.modules[m], 'crc32c'):
            sys.modules[m].crc32c = stub
    return stub


def same_structure(ctx, rc, sc, label, seen=None, depth=0):
    """library cell rc has the bits, type and references of spec cell sc, recursively"""
    ok = And(rc.bits.to01() == sc.bits, rc.type_ == sc.typ, len(rc.refs) == len(sc.refs))
    if len(rc.refs) == len(sc.refs):
        for r, s in zip(rc.refs, sc.refs):
            ok = And(ok, same_structure(ctx, r, s, label, seen, depth + 1))
    return ok


def distinct_count(cells):
    """number of distinct cells (by hash) among spec cells under the current path condition (solver-decided)"""
    reps = []
    for c in cells:
        h = cell_hash(c, 3)          # cells are identified by their representation (highest-level) hash
        dup = False
        for r in reps:
            if len(r.bits) == len(c.bits) and len(r.refs) == len(c.refs):
                e = cell_hash(r, 3) == h
                if e if isinstance(e, bool) else bool(e):
                    dup = True
                    break
        if not dup:
            reps.append(c)
    return len(reps), reps


def b64text(ctx, data, urlsafe=False):
    import base64
    if ctx.symbolic:
        from sx import hook
        f = hook.B64Stub.urlsafe_b64encode if urlsafe else hook.B64Stub.b64encode
        return f(data).decode()
    return (base64.urlsafe_b64encode(data) if urlsafe else base64.b64encode(data)).decode()
