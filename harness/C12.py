"""C12 - block signature sets are accepted only with a genuine validator supermajority.

Engine A on check_block_signatures with Ed25519 verification stubbed by an uninterpreted validity predicate (nothing is
assumed about which signatures are valid: the solver quantifies over the truth value of each).  Symbolic: the 64-bit
weights (integer theory), the validity of every signature, the block's root and file hash.  Enumerated: the number of
validators 0..4 and every signer list (each validator or an unknown signer, so duplicates and every order occur).
"""
import hashlib
import zlib
import itertools
import sys

from sx.api import *
from sx import core as C

import pytoniq_core.proof.check_proof     # noqa (the package attribute of that name is the function: use sys.modules)
CP = sys.modules['pytoniq_core.proof.check_proof']
from pytoniq_core.tlb.config import ValidatorDescr, SigPubKey
from pytoniq_core.tl.block import BlockIdExt

PROPERTY = 'C12'

KEYS = [hashlib.sha256(b'validator key %d' % i).digest() for i in range(6)]
UNKNOWN = hashlib.sha256(b'unknown signer').digest()


def node_id(pk):
    return hashlib.sha256(b'\xc6\xb4\x13H' + pk).digest()


def spelled(hexid, how):
    """the same node id written differently: bytes.fromhex() accepts upper case and blanks between the bytes"""
    if how == 1:
        return hexid.upper()
    if how == 2:
        return ' '.join(hexid[i:i + 2] for i in range(0, len(hexid), 2))
    if how == 3:
        return hexid[:32].upper() + hexid[32:]
    return hexid


def h_sigset(ctx, nv, signers, wmode='sym', twin=None, addr=False, spell=None):
    """signers: list of validator indices or 'u' (unknown signer); spell: how each entry writes its node id (same id,
    other spelling: a validator listed twice under two spellings is still one validator)"""
    if ctx.symbolic:
        weights = [ctx.zint(f'w{i}', 0, (1 << 64) - 1) for i in range(nv)]
    else:
        weights = [ctx.zint(f'w{i}') for i in range(nv)]
    if wmode == 'equal' and nv:
        for w in weights[1:]:
            ctx.assume(w == weights[0])
    nodes = [ValidatorDescr('validator_addr' if addr else 'validator', SigPubKey(KEYS[i]), weights[i],
                            adnl_addr=bytes(32) if addr else None) for i in range(nv)]
    root, fileh = ctx.bytes_('root_hash', 32), ctx.bytes_('file_hash', 32)
    blk = BlockIdExt(-1, None, 1234, root, fileh)
    valid = {}
    sigs = []
    for pos, s in enumerate(signers):
        pk = UNKNOWN if s == 'u' else KEYS[s]
        sig = hashlib.sha512(b'sig' + pk).digest()               # one signature value per signer (a repeated entry is identical)
        if (pk, sig) not in valid:
            valid[(pk, sig)] = ctx.boolean(f'valid_{s}')
        sigs.append(dict(node_id_short=spelled(node_id(pk).hex(), spell[pos] if spell else 0), signature=sig))
    seen_msgs = []

    def verify_stub(public_key, signed_message, signature):
        seen_msgs.append(signed_message)
        key = (bytes(public_key), bytes(signature))
        if key not in valid:
            valid[key] = ctx.boolean(f'valid_other_{len(valid)}')
        return valid[key]
    saved = CP.verify_sign
    if ctx.symbolic:
        CP.verify_sign = verify_stub
    else:
        # concrete replay on the untouched library: the Ed25519 primitive is replaced by the truth values of the model
        # (its own contract is validated separately in h_contract)
        CP.verify_sign = verify_stub
    try:
        try:
            CP.check_block_signatures(nodes, sigs, blk)
            accepted = True
        except CP.ProofError:
            accepted = False
    finally:
        CP.verify_sign = saved
    known = all(s != 'u' for s in signers)
    distinct = len(set(signers)) == len(signers)
    all_valid = And(*[valid[(UNKNOWN if s == 'u' else KEYS[s], hashlib.sha512(b'sig' + (UNKNOWN if s == 'u' else KEYS[s])).digest())]
                      for s in signers]) if signers else True
    total = 0
    for w in weights:
        total = total + w
    signed = 0
    for s in set(signers):
        if s != 'u':
            signed = signed + weights[s]
    enough = signed * 3 > total * 2
    if twin == 'ge':
        enough = signed * 3 > total * 2 + 1
    want = And(known, distinct, all_valid, enough) if (known and distinct) else False
    ctx.known('duplicate_signer_counted_twice', not distinct)
    ctx.known('exactly_two_thirds_accepted', signed * 3 == total * 2)
    ctx.require(Iff(accepted, want), 'accepted exactly with valid signatures of distinct known validators carrying more than 2/3 of the weight')
    expect_msg = b'pn\x0b\xc5' + root + fileh
    for m in seen_msgs:
        ctx.require(m == expect_msg, 'signed payload is magic + root_hash + file_hash')


h_sigset.theory = 'int'


def h_real_verify(ctx, L, nv=2, twin=None):
    """check_block_signatures through the library's own verify_sign, over an idealised Ed25519 (one valid signature F(pk, msg)
    per key and message, F injective; nacl's VerifyKey replaced by that model): a signature field of L arbitrary symbolic bytes
    is accepted only if it is exactly the 64-byte signature of this block's payload under the signer's key"""
    import types
    import pytoniq_core.crypto.signature      # noqa
    SG = sys.modules['pytoniq_core.crypto.signature']
    root, fileh = ctx.bytes_('root_hash', 32), ctx.bytes_('file_hash', 32)
    blk = BlockIdExt(-1, None, 1234, root, fileh)
    payload = b'pn\x0b\xc5' + root + fileh
    sig = ctx.bytes_('sig', L)
    if ctx.symbolic:
        weights = [ctx.zint(f'w{i}', 0, (1 << 64) - 1) for i in range(nv)]
    else:
        weights = [ctx.zint(f'w{i}') for i in range(nv)]
    ctx.assume(weights[0] * 3 > (sum(weights[1:]) + weights[0]) * 2)          # validator 0 alone carries more than 2/3
    if ctx.symbolic:
        pks = KEYS

        def F(pk, msg):
            return sha256(b'ed25519 signature R' + pk + msg) + sha256(b'ed25519 signature S' + pk + msg)

        class BadSig(Exception):
            pass

        class VK:
            def __init__(self, key, *a, **k):
                self.key = key

            def verify(self, smessage, signature=None, *a, **k):
                if signature is None:
                    if len(smessage) < 64:
                        raise ValueError('too short')
                    signature, smessage = smessage[:64], smessage[64:]
                if len(signature) != 64:
                    raise ValueError('The signature must be exactly 64 bytes long')
                if not (C.SymBytes.lift(signature) == F(self.key, smessage)):
                    raise BadSig('Signature was forged or corrupt')
                return smessage
        saved = (SG.VerifyKey, SG.exc)
        SG.VerifyKey, SG.exc = VK, types.SimpleNamespace(BadSignatureError=BadSig)
        genuine = F(pks[0], payload)
    else:
        from nacl.signing import SigningKey
        sks = [SigningKey(hashlib.sha256(b'real validator %d' % i).digest()) for i in range(nv)]
        pks = [k.verify_key.encode() for k in sks]
        saved = None
        genuine = sks[0].sign(payload).signature
    if L >= 64:
        # so that a counterexample found over the idealised Ed25519 can be replayed with the real one: `forge` says whether the
        # first 64 bytes of the field are the valid signature of the REST of the field (a nacl "signed message"); the replay
        # then builds exactly that with the real signing key
        forge = ctx.boolean('forge')
        if ctx.symbolic:
            ctx.assume(Iff(forge, sig[:64] == F(pks[0], sig[64:])))
        elif forge:
            rest = bytes(sig[64:])
            sig = sks[0].sign(rest).signature + rest
    nodes = [ValidatorDescr('validator', SigPubKey(pks[i]), weights[i]) for i in range(nv)]
    sigs = [dict(node_id_short=node_id(pks[0]).hex(), signature=sig)]
    saved_cp = CP.verify_sign
    CP.verify_sign = SG.verify_sign
    try:
        try:
            CP.check_block_signatures(nodes, sigs, blk)
            accepted = True
        except Exception:
            accepted = False
    finally:
        CP.verify_sign = saved_cp
        if saved:
            SG.VerifyKey, SG.exc = saved
    is_genuine = (sig == genuine) if L == 64 else False
    if twin == 'never':
        is_genuine = False
    if ctx.symbolic or L != 64:
        ctx.require(Iff(accepted, is_genuine), 'a signature field is accepted exactly when it is the 64-byte signature of this block under the signer\'s key')
    else:
        # concrete replay with the real Ed25519: an arbitrary 64-byte string is the genuine signature with negligible probability
        ctx.require(accepted == (bytes(sig) == bytes(genuine)), 'a signature field is accepted exactly when it is the 64-byte signature of this block under the signer\'s key')


h_real_verify.theory = 'int'


def h_history(ctx, nv, first, second, same_block=True, reweigh=False):
    """two calls in one process: the verdict on the second signature set is a function of that call's arguments alone.
    The first call may verify genuine signatures of the same validators over the same (or another) block; the second
    set carries other signature bytes whose validity is free - a verdict remembered per (block, validator) instead of per
    signature would accept it without verifying."""
    weights = [ctx.zint(f'w{i}', 0, (1 << 64) - 1) if ctx.symbolic else ctx.zint(f'w{i}') for i in range(nv)]
    nodes = [ValidatorDescr('validator', SigPubKey(KEYS[i]), weights[i]) for i in range(nv)]
    all_weights = {b'one': weights, b'two': weights}
    all_nodes = {b'one': nodes, b'two': nodes}
    if reweigh:
        # the second call brings its own validator set: the same keys in the same order, other weights (fresh objects)
        w2 = [ctx.zint(f'v{i}', 0, (1 << 64) - 1) if ctx.symbolic else ctx.zint(f'v{i}') for i in range(nv)]
        all_weights[b'two'] = w2
        all_nodes[b'two'] = [ValidatorDescr('validator', SigPubKey(KEYS[i]), w2[i]) for i in range(nv)]
    root, fileh = ctx.bytes_('root_hash', 32), ctx.bytes_('file_hash', 32)
    blk1 = BlockIdExt(-1, None, 1234, root, fileh)
    blk2 = BlockIdExt(-1, None, 1234, root, fileh) if same_block else BlockIdExt(-1, None, 1235, ctx.bytes_('root2', 32), fileh)
    valid = {}

    def verify_stub(public_key, signed_message, signature):
        key = (bytes(public_key), bytes(signature))
        if key not in valid:
            valid[key] = ctx.boolean(f'valid_other_{len(valid)}')
        return valid[key]

    def sigset(signers, tag):
        out = []
        for s in signers:
            pk = UNKNOWN if s == 'u' else KEYS[s]
            sig = hashlib.sha512(tag + pk).digest()
            if (pk, sig) not in valid:
                valid[(pk, sig)] = ctx.boolean(f'valid_{tag.decode()}_{s}')
            out.append(dict(node_id_short=node_id(pk).hex(), signature=sig))
        return out

    def oracle(signers, tag):
        known = all(s != 'u' for s in signers)
        distinct = len(set(signers)) == len(signers)
        if not (known and distinct):
            return False
        all_valid = And(*[valid[(KEYS[s], hashlib.sha512(tag + KEYS[s]).digest())] for s in signers]) if signers else True
        total = 0
        for w in all_weights[tag]:
            total = total + w
        signed = 0
        for s in signers:
            signed = signed + all_weights[tag][s]
        return And(all_valid, signed * 3 > total * 2)
    saved = CP.verify_sign
    CP.verify_sign = verify_stub
    try:
        for n, (signers, tag, blk) in enumerate(((first, b'one', blk1), (second, b'two', blk2), (first, b'one', blk1))):
            sigs = sigset(signers, tag)
            try:
                CP.check_block_signatures(all_nodes[tag], sigs, blk)
                accepted = True
            except CP.ProofError:
                accepted = False
            ctx.require(Iff(accepted, oracle(signers, tag)), 'call sequence: every verdict is that of the call\'s own arguments')
    finally:
        CP.verify_sign = saved


h_history.theory = 'int'
h_history.symkeys = True        # block ids with symbolic hashes may be used as dictionary keys by the code under test


def h_node_id(ctx):
    pk = ctx.bytes_('pk', 32)
    ctx.require(CP.calculate_node_id_short(pk) == sha256(b'\xc6\xb4\x13H' + pk), 'node id = sha256(magic + public key)')


def h_contract(ctx):
    """validation of the environment model on fixed vectors: the real verify_sign is a function of (key, message,
    signature) that accepts the signature made by the signing helper and rejects altered ones (not the deciding step)"""
    from pytoniq_core.crypto.signature import verify_sign, sign_message
    from nacl.signing import SigningKey
    sk = SigningKey(hashlib.sha256(b'seed').digest())
    pk = sk.verify_key.encode()
    msg = b'pn\x0b\xc5' + bytes(range(64))
    sig = sign_message(msg, sk._signing_key)
    ctx.require(verify_sign(pk, msg, sig) is True, 'contract: genuine signature verifies')
    ctx.require(verify_sign(pk, msg[:-1] + b'\x00', sig) is False, 'contract: other message rejected')
    ctx.require(verify_sign(pk, msg, sig[:-1] + bytes([sig[-1] ^ 1])) is False, 'contract: altered signature rejected')
    ctx.require(verify_sign(KEYS[0], msg, sig) is False, 'contract: other key rejected')


def instances(tier, seed):
    yield 'h_contract', dict()
    yield 'h_node_id', dict()
    max_len = 3 if tier == 'quick' else 5
    for nv in range(0, 5):
        alphabet = list(range(nv)) + ['u']
        for n in range(0, max_len + 1):
            for signers in itertools.product(alphabet, repeat=n):
                if tier == 'thorough' and n == 5 and nv >= 3 and (zlib.crc32(repr(signers).encode()) % 4):
                    continue
                yield 'h_sigset', dict(nv=nv, signers=list(signers))
    # the same validator under different spellings of its node id (upper case, blanks, mixed): still one validator
    for nv in range(1, 4):
        alphabet = list(range(nv)) + ['u']
        for n in range(1, 4 if tier == 'quick' else 5):
            for signers in itertools.product(alphabet, repeat=n):
                dup = len(set(signers)) < n
                if not dup and zlib.crc32(repr(signers).encode()) % 3 != seed % 3:
                    continue
                for pat in ((1, 2, 3, 0), (0, 1, 0, 2)) if dup else ((1, 2, 3, 1),):
                    yield 'h_sigset', dict(nv=nv, signers=list(signers), spell=list(pat[:n]) if n <= 4 else None)
    for signers in ([0, 1], [0, 1, 2], [2, 1, 0], [0], []):
        yield 'h_sigset', dict(nv=3, signers=signers, wmode='equal')
        yield 'h_sigset', dict(nv=3, signers=signers, addr=True)


    for nv in (1, 2, 3):
        lists = [list(x) for n in range(0, 3) for x in itertools.product(list(range(nv)), repeat=n) if len(set(x)) == n]
        for a in lists:
            for b in lists:
                if not a and not b:
                    continue
                if tier == 'quick' and nv == 3 and zlib.crc32(repr((a, b)).encode()) % 3 != seed % 3:
                    continue
                yield 'h_history', dict(nv=nv, first=a, second=b)
        yield 'h_history', dict(nv=nv, first=[0], second=[0], same_block=False)
        for a, b in (([0], [0]), (list(range(nv)), [0]), ([0], list(range(nv))[-2:])):
            yield 'h_history', dict(nv=nv, first=a, second=b, reweigh=True)
    for L in (0, 1, 63, 64, 65, 96, 128, 160):
        yield 'h_real_verify', dict(L=L)


def twins(tier, seed):
    yield 'h_sigset', dict(nv=3, signers=[0, 1], twin='ge')
    yield 'h_real_verify', dict(L=64, twin='never')


BOUNDS = {
    'validators': '0..4 with distinct keys; weights: every value 0..2^64-1 each (integer theory)',
    'signature lists': 'every list of length 0..3 (quick) / 0..5 (thorough, length 5 sampled for >= 3 validators) over {each validator, unknown signer}',
    'validity': 'the truth value of every (key, message, signature) triple is a free symbolic boolean',
    'spelling': 'signer lists of length 1..3 (thorough ..4) over 1..3 validators with the node ids written in lower case, upper case, with blanks '
                'and half upper case - every list with a repeated signer in two spelling patterns',
}
BOUNDS['through the real verify_sign'] = 'one signature field of 0, 1, 63, 64, 65, 96, 128, 160 arbitrary symbolic bytes, two validators, idealised Ed25519 in place of nacl'
BOUNDS['call sequences'] = ('three calls in one process (set A, set B with other signature bytes of free validity, set A again) over the same block '
                            'or another one; 1..3 validators, sets of 0..2 distinct signers')
OUTSIDE = ['Ed25519 itself (libsodium): only its use is checked; its contract is validated on fixed vectors', 'more than 4 validators']
STUBS = ['verify_sign: uninterpreted predicate valid(pk, msg, sig) - functional only', 'hashlib.sha256 on symbolic input: injective uninterpreted function']
ASSUMPTIONS = ['a repeated entry of the same signer carries the same signature bytes']
