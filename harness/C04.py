"""C04 - emitted bag-of-cells bytes conform to the TON BoC wire format.

Same executions as C03; the bytes returned by to_boc are handed to the strict decoder of specs/bocspec.py.
"""
from harness.boc_common import *
from harness.C03 import small_dags, _root_for
from pytoniq_core.boc import Builder, Cell, Slice

PROPERTY = 'C04'


def h_wire(ctx, shape=None, opts=None, twins=(), exotic=None, m=1, twin=None):
    sc, root = _root_for(ctx, shape, twins, exotic, m)
    crc = install_crc_stub(ctx)
    boc = root.to_boc(**opts)
    ctx.known('index_holds_lengths', bool(opts['has_idx']) and len(topo(sc)) > 1)
    try:
        h = bocspec.decode(boc, crc)
    except bocspec.BocSpecError as ex:
        msg = str(ex)
        msg = 'index entry: cumulative end offset expected' if msg.startswith('index entry') else msg
        ctx.require(False, 'strict decoder accepts the emitted bytes [' + msg + ']')
        return
    ctx.require(True, 'strict decoder accepts the emitted bytes')
    ctx.require(h['has_idx'] == bool(opts['has_idx']) and h['has_crc'] == bool(opts['hash_crc32'])
                and h['has_cache_bits'] == bool(opts['has_cache_bits']), 'flag bits reflect the options')
    ctx.require(h['crc_ok'], 'CRC-32C covers everything before it')
    nodes = topo(sc)
    want_n, reps = distinct_count(nodes)
    if twin == 'count':
        want_n += 1
    ctx.require(h['cells_num'] == want_n, 'each distinct cell appears exactly once (cell count)')
    ctx.require(h['roots'] == [0], 'single root, listed first')
    # decoded DAG equals the original
    def same(i, s):
        c = h['cells'][i]
        ok = And(c['bits'] == s.bits, c['exotic'] == (s.typ != ORD), len(c['refs']) == len(s.refs), c['mask'] == s.mask)
        if len(c['refs']) == len(s.refs):
            for j, t in zip(c['refs'], s.refs):
                ok = And(ok, same(j, t))
        return ok
    ctx.require(same(h['roots'][0], sc), 'decodes to the same DAG')
    # emitted cells pairwise distinct
    ok = True
    cs = h['cells']
    for i in range(len(cs)):
        for j in range(i + 1, len(cs)):
            a, b = cs[i], cs[j]
            if len(a['bits']) == len(b['bits']) and len(a['refs']) == len(b['refs']) and a['d1'] == b['d1']:
                ok = And(ok, Not(And(a['bits'] == b['bits'], a['refs'] == b['refs'])))
    ctx.require(ok, 'no cell is emitted twice')
    ctx.require(h['size'] == bocspec.min_bytes(h['cells_num']) or h['size'] <= 4, 'size width sufficient')
    ctx.observe('len', len(boc))
    ctx.observe('cells', h['cells_num'])


def instances(tier, seed):
    dags = small_dags()
    fam = family_dags()
    pick = dags if tier == 'thorough' else [d for i, d in enumerate(dags) if len(d) <= 2 or i % 6 == (seed + 1) % 6]
    for d in pick:
        for o in (OPTIONS if tier == 'thorough' else [OPTIONS[(len(str(d)) + seed) % 6], OPTIONS[5], OPTIONS[2]]):
            yield 'h_wire', dict(shape=d, opts=o)
    for name, d in fam.items():
        for o in OPTIONS:
            yield 'h_wire', dict(shape=d, opts=o)
    for o in OPTIONS:
        yield 'h_wire', dict(shape=[[1, 2], [], []], opts=o, twins=[[1, 2]])
    yield 'h_wire', dict(shape=[[1, 2], [3], [4], [], []], opts=OPTIONS[3], twins=[[3, 4], [1, 2]])
    for ex, m in (('mproof_ord_pruned', 1), ('mproof_ord_pruned', 3), ('mupd', 1), ('library', 1), ('ord_over_two_pruned', 5)):
        for o in (OPTIONS[0], OPTIONS[5]) if tier == 'quick' else OPTIONS:
            yield 'h_wire', dict(exotic=ex, m=m, opts=o)
    # header-field width boundaries: payload 255/256 bytes, cells 255/256
    for n in (1, 2):
        pass


def twins(tier, seed):
    yield 'h_wire', dict(shape=[[1], []], opts=OPTIONS[0], twin='count')


BOUNDS = {
    'DAG shapes': 'as C03: every rooted DAG with <= 3 cells, 4 cells with out-degree <= 2, the families, may-be-equal pairs, 5 exotic trees',
    'contents': 'all data bits symbolic',
    'options': 'the 6 valid combinations',
}
OUTSIDE = ['width boundaries of header fields beyond what the enumerated DAGs reach (see h_width in thorough)']
STUBS = ['crc32c: memoised uninterpreted function on both sides (span check by congruence)', 'hashlib.sha256: injective uninterpreted function']
ASSUMPTIONS = ['specs/bocspec.py is a faithful strict reading of boc.tlb']
