"""C04 - emitted bag-of-cells bytes conform to the TON BoC wire format.

Same executions as C03; the bytes returned by to_boc are handed to the strict decoder of specs/bocspec.py.
"""
from harness.boc_common import *
from harness.C03 import small_dags, _root_for, exact_cells_dag, payload_chain
from pytoniq_core.boc import Builder, Cell, Slice

PROPERTY = 'C04'


def h_wire(ctx, shape=None, opts=None, twins=(), exotic=None, m=1, twin=None):
    sc, root = _root_for(ctx, shape, twins, exotic, m)
    crc = install_crc_stub(ctx)
    boc = root.to_boc(**opts)
    ctx.known('index_holds_lengths', bool(opts['has_idx']) and len(topo(sc)) > 1)
    try:
        h = bocspec.decode(boc, crc)
    except bocspec.BocSpecError as ex:
        msg = str(ex)
        msg = 'index entry: cumulative end offset expected' if msg.startswith('index entry') else msg
        ctx.require(False, 'strict decoder accepts the emitted bytes [' + msg + ']')
        return
    ctx.require(True, 'strict decoder accepts the emitted bytes')
    ctx.require(h['has_idx'] == bool(opts['has_idx']) and h['has_crc'] == bool(opts['hash_crc32'])
                and h['has_cache_bits'] == bool(opts['has_cache_bits']), 'flag bits reflect the options')
    ctx.require(h['crc_ok'], 'CRC-32C covers everything before it')
    nodes = topo(sc)
    want_n, reps = distinct_count(nodes)
    if twin == 'count':
        want_n += 1
    ctx.require(h['cells_num'] == want_n, 'each distinct cell appears exactly once (cell count)')
    ctx.require(h['roots'] == [0], 'single root, listed first')
    # decoded DAG equals the original
    def same(i, s):
        c = h['cells'][i]
        ok = And(c['bits'] == s.bits, c['exotic'] == (s.typ != ORD), len(c['refs']) == len(s.refs), c['mask'] == s.mask)
        if len(c['refs']) == len(s.refs):
            for j, t in zip(c['refs'], s.refs):
                ok = And(ok, same(j, t))
        return ok
    ctx.require(same(h['roots'][0], sc), 'decodes to the same DAG')
    # emitted cells pairwise distinct
    ok = True
    cs = h['cells']
    for i in range(len(cs)):
        for j in range(i + 1, len(cs)):
            a, b = cs[i], cs[j]
            if len(a['bits']) == len(b['bits']) and len(a['refs']) == len(b['refs']) and a['d1'] == b['d1']:
                ok = And(ok, Not(And(a['bits'] == b['bits'], a['refs'] == b['refs'])))
    ctx.require(ok, 'no cell is emitted twice')
    ctx.require(h['size'] == bocspec.min_bytes(h['cells_num']) or h['size'] <= 4, 'size width sufficient')
    ctx.observe('len', len(boc))
    ctx.observe('cells', h['cells_num'])


def h_wire_big(ctx, kind, n, opts):
    """width boundaries of the header fields: exactly n distinct cells (kind='cells') or exactly n bytes of cell data
    (kind='payload'); the emitted bytes must satisfy the strict decoder and decode to the same DAG"""
    sc = exact_cells_dag(ctx, n) if kind == 'cells' else payload_chain(ctx, n)
    root = to_real(sc, via='builder')
    crc = install_crc_stub(ctx)
    boc = root.to_boc(**opts)
    try:
        h = bocspec.decode(boc, crc)
    except bocspec.BocSpecError as ex:
        ctx.require(False, 'strict decoder accepts the emitted bytes at a width boundary [' + str(ex)[:60] + ']')
        return
    ctx.require(True, 'strict decoder accepts the emitted bytes at a width boundary')
    nodes = topo(sc)
    ctx.require(h['cells_num'] == len(nodes), 'width boundary: cell count')
    if kind == 'payload':
        ctx.require(h['tot'] == n, 'width boundary: cell data size is the constructed one')
    ctx.require(h['crc_ok'], 'CRC-32C covers everything before it')
    # decoded DAG equals the original (iteratively: the chains are deep)
    ok = True
    stack, seen = [(h['roots'][0], sc)], set()
    while stack:
        i, s_ = stack.pop()
        if (i, id(s_)) in seen:
            continue
        seen.add((i, id(s_)))
        c = h['cells'][i]
        ok = And(ok, c['bits'] == s_.bits, len(c['refs']) == len(s_.refs))
        if len(c['refs']) == len(s_.refs):
            stack.extend(zip(c['refs'], s_.refs))
    ctx.require(ok, 'width boundary: decodes to the same DAG')
    ctx.observe('len', len(boc))


def h_wire_two_bags(ctx, opts1, opts2, order):
    """the same cell objects take part in several bags (a shared sub-DAG at different positions): every emitted bag satisfies
    the strict decoder and decodes to its own DAG, whatever was serialised before"""
    from harness.C03 import h_two_bags
    todo, crc = h_two_bags(ctx, opts1, opts2, order, strict=True)
    for root, sc, o in todo:
        boc = root.to_boc(**o)
        try:
            h = bocspec.decode(boc, crc)
        except bocspec.BocSpecError as ex:
            ctx.require(False, 'several bags over shared cell objects: strict decoder accepts the emitted bytes [' + str(ex)[:50] + ']')
            continue
        ctx.require(True, 'several bags over shared cell objects: strict decoder accepts the emitted bytes')

        def same(i, s):
            c = h['cells'][i]
            ok = And(c['bits'] == s.bits, len(c['refs']) == len(s.refs))
            if len(c['refs']) == len(s.refs):
                for j, t in zip(c['refs'], s.refs):
                    ok = And(ok, same(j, t))
            return ok
        ctx.require(same(h['roots'][0], sc), 'several bags over shared cell objects: decodes to its own DAG')


def instances(tier, seed):
    for order in ('ab', 'ba', 'xab', 'same', 'same_rev'):
        for o1, o2 in ((OPTIONS[0], OPTIONS[0]), (OPTIONS[0], OPTIONS[5]), (OPTIONS[3], OPTIONS[1])):
            yield 'h_wire_two_bags', dict(opts1=o1, opts2=o2, order=order)
    dags = small_dags()
    fam = family_dags()
    pick = dags if tier == 'thorough' else [d for i, d in enumerate(dags) if len(d) <= 2 or i % 6 == (seed + 1) % 6]
    for d in pick:
        for o in (OPTIONS if tier == 'thorough' else [OPTIONS[(len(str(d)) + seed) % 6], OPTIONS[5], OPTIONS[2]]):
            yield 'h_wire', dict(shape=d, opts=o)
    for name, d in fam.items():
        for o in OPTIONS:
            yield 'h_wire', dict(shape=d, opts=o)
    for o in OPTIONS:
        yield 'h_wire', dict(shape=[[1, 2], [], []], opts=o, twins=[[1, 2]])
    yield 'h_wire', dict(shape=[[1, 2], [3], [4], [], []], opts=OPTIONS[3], twins=[[3, 4], [1, 2]])
    for o in (OPTIONS[0], OPTIONS[5]):
        yield 'h_wire', dict(shape=[[1, 2], [], [3], []], opts=o, twins=[[1, 3]])     # root -> [X1, P], P -> [X2]
        yield 'h_wire', dict(shape=[[1, 2], [3], [], []], opts=o, twins=[[2, 3]])     # root -> [P, X1], P -> [X2]
        yield 'h_wire', dict(shape=[[1, 2, 3], [], [4], [4], []], opts=o, twins=[[1, 4]])
    for ex, m in (('mproof_ord_pruned', 1), ('mproof_ord_pruned', 3), ('mupd', 1), ('library', 1), ('ord_over_two_pruned', 5)):
        for o in (OPTIONS[0], OPTIONS[5]) if tier == 'quick' else OPTIONS:
            yield 'h_wire', dict(exotic=ex, m=m, opts=o)
    # header-field width boundaries: number of cells (size field and every reference index) and bytes of cell data
    # (off_bytes, the index entries and - doubled - the entries with cache bits)
    for n in (255, 256, 257) + ((65535, 65536, 65537) if tier == 'thorough' else ()):
        # (a 65 536-cell bag costs minutes per instance under the strict decoder: two option sets there, all six at 255..257)
        for o in (OPTIONS[0], OPTIONS[5]) if (tier == 'quick' or n > 1000) else OPTIONS:
            yield 'h_wire_big', dict(kind='cells', n=n, opts=o)
    for n in (127, 128, 129, 255, 256, 257) + ((32767, 32768, 32769, 65535, 65536, 65537) if tier == 'thorough' else (32768, 65536)):
        for o in OPTIONS:
            yield 'h_wire_big', dict(kind='payload', n=n, opts=o)


def twins(tier, seed):
    yield 'h_wire', dict(shape=[[1], []], opts=OPTIONS[0], twin='count')


INSTANCE_TIMEOUT = {'quick': 200, 'thorough': 1500}
BOUNDS = {
    'DAG shapes': 'as C03: every rooted DAG with <= 3 cells, 4 cells with out-degree <= 2, the families, may-be-equal pairs, 5 exotic trees',
    'contents': 'all data bits symbolic',
    'options': 'the 6 valid combinations',
}
BOUNDS['width boundaries'] = 'exactly 255, 256, 257 (thorough: 65535..65537) distinct cells; exactly 127..129, 255..257, 32768, 65536 (thorough: +-1 of each) bytes of cell data; root symbolic, concrete distinct filler'
OUTSIDE = ['bags of more than 65537 cells or 65537 bytes of cell data']
STUBS = ['crc32c: memoised uninterpreted function on both sides (span check by congruence)', 'hashlib.sha256: injective uninterpreted function']
ASSUMPTIONS = ['specs/bocspec.py is a faithful strict reading of boc.tlb']
