"""C05 - the BoC parser agrees with the format on foreign input and rejects corruption.

Engine A on Cell.from_boc fed by the STRICT ENCODER of specs/bocspec.py, which exercises the freedoms the library's own
writer never uses (wider size/offset fields, index, cache bits, CRC, stored hashes, several roots, a root that is not the
first cell, another topological order, the two legacy magics).  Cell contents, stored hashes and extension bytes are
symbolic; structure is enumerated.  Rejection: every truncation, extension, single-bit flip of CRC-protected input
(the CRC facts needed are discharged on the real crc32c loop body, technique B, and composed), replaced references.
"""
import itertools
import random
import sys

import z3

from harness.boc_common import *
from pytoniq_core.boc import Builder, Cell, Slice

PROPERTY = 'C05'

SHAPES = {
    'one': [[]],
    'pair': [[1], []],
    'share': [[1, 2], [2], []],
    'diamond': [[1, 2], [3], [3], []],
    'fan': [[1, 2, 3], [], [], []],
    'chain3': [[1], [2], [3], []],
}


def _ecells(ctx, shape, order=None, hashes=(), exotic=None, m=1):
    """spec cells (symbolic contents) and their ECell form in the given topological order (list of shape indices)"""
    if exotic:
        from harness.C02 import SHAPES as XS
        root = warm(XS[exotic](ctx, m))
        cells = topo(root)[::-1]                    # parents before children
    else:
        cells = build_dag(ctx, shape)
    order = list(order) if order else list(range(len(cells)))
    pos = {id(cells[i]): k for k, i in enumerate(order)}
    ecs = []
    for k, i in enumerate(order):
        c = cells[i]
        hs = ds = None
        if hashes == 'all' or k in hashes:
            lv = [0] + [b + 1 for b in range(3) if (c.mask >> b) & 1]
            if c.typ == PRUNED:
                lv = lv[:bocspec.popcount_levels(c.mask)]
            hs = [cell_hash(c, l) for l in lv]
            ds = [cell_depth(c, l) for l in lv]
            ds = [d if isinstance(d, int) else d for d in ds]
        ecs.append(bocspec.ECell(c.bits, [pos[id(r)] for r in c.refs], exotic=c.typ != ORD, mask=c.mask, hashes=hs,
                                 depths=None if ds is None else [_DepthBytes(d) for d in ds]))
    return cells, order, ecs


class _DepthBytes:
    """depth that renders as two big-endian bytes (symbolic depths of pruned branches included)"""
    def __init__(self, d):
        self.d = d

    def to_bytes(self, n, order):
        return self.d.to_bytes(n, order) if isinstance(self.d, int) else bytes_of_bits(bits_of_uint(self.d, 8 * n))


def _check_roots(ctx, got, cells, order, roots, label):
    ctx.require(isinstance(got, list) and len(got) == len(roots), f'{label}: number of roots')
    if not isinstance(got, list) or len(got) != len(roots):
        return
    for g, r in zip(got, roots):
        sc = cells[order[r]]
        ctx.require(same_structure(ctx, g, sc, 'root'), f'{label}: root has the denoted bits, types and references')
        ctx.require(g.hash == cell_hash(sc, 3), f'{label}: root has the denoted hash')


def h_accept(ctx, shape=None, order=None, size=None, off_bytes=None, has_idx=False, has_crc=False, has_cache_bits=False,
             hashes=(), roots=(0,), magic='generic', exotic=None, m=1, twin=None):
    cells, order, ecs = _ecells(ctx, SHAPES.get(shape), order, hashes if hashes == 'all' else set(hashes), exotic, m)
    crc = install_crc_stub(ctx)
    cache = [(7 * i + 3) % 2 for i in range(len(ecs))] if has_cache_bits else None
    data = bocspec.encode(ecs, roots=roots, size=size, off_bytes=off_bytes, has_idx=has_idx, has_crc=has_crc,
                          has_cache_bits=has_cache_bits, magic=magic, crc_fn=crc, cache_bits=cache)
    ctx.observe('len', len(data))
    ctx.known('legacy_magic_rejected', magic != 'generic')
    ctx.known('stored_hash_count_by_mask', any(e.hashes is not None and e.mask >= 2 for e in ecs))
    ctx.known('min_header_length_check', (size or 1) >= 3 and len(data) - 5 < 1 + 5 * (size or 1))
    got = Cell.from_boc(data)
    if twin == 'swap':
        roots = list(roots)[::-1] if len(roots) > 1 else [1]
    _check_roots(ctx, got, cells, order, roots, 'accept')


def _mk(ctx, shape, opts):
    cells, order, ecs = _ecells(ctx, SHAPES[shape])
    crc = install_crc_stub(ctx)
    data = bocspec.encode(ecs, crc_fn=crc, **opts)
    return cells, order, ecs, data, crc


def _rejected(data):
    try:
        Cell.from_boc(data)
        return False
    except Exception:
        return True


def h_truncate(ctx, shape, opts):
    cells, order, ecs, data, crc = _mk(ctx, shape, opts)
    for n in range(len(data)):
        ctx.require(_rejected(data[:n]), 'truncated input is rejected')
    ctx.observe('len', len(data))


def h_extend(ctx, shape, opts, k):
    cells, order, ecs, data, crc = _mk(ctx, shape, opts)
    extra = ctx.bytes_('extra', k)
    ctx.require(_rejected(data + extra), 'extended input is rejected')
    if opts.get('has_crc') or opts.get('magic') == 'idx_crc':
        # an extension whose author recomputes the checksum: the bag followed by junk and the CRC-32C of all of it, and the junk
        # inserted in front of a recomputed checksum
        ext2 = data + extra
        ctx.require(_rejected(ext2 + crc(ext2)), 'extended input with a recomputed checksum is rejected')
        ext3 = data[:-4] + extra
        ctx.require(_rejected(ext3 + crc(ext3)), 'input extended in front of a recomputed checksum is rejected')
    # and insertion in front of the checksum / in the middle never yields the original either
    ctx.observe('len', len(data))


def h_flip(ctx, shape, opts, lo=0, hi=None, twin=None):
    """single-bit flips of CRC-protected input, bit positions lo..hi-1 (all by default)"""
    o = dict(opts, has_crc=True)
    cells, order, ecs, data, crc = _mk(ctx, shape, o)
    nbits = 8 * len(data)
    hi = nbits if hi is None else min(hi, nbits)
    covered = len(data) - 4
    base = C.SymBytes.lift(data)
    for k in range(lo, hi):
        byte, bit = divmod(k, 8)
        if ctx.symbolic:
            mask = bytes(byte) + bytes([0x80 >> bit]) + bytes(len(data) - byte - 1)
            d2 = base ^ mask if twin != 'noflip' else base
            d2 = d2 if isinstance(d2, (bytes, C.SymBytes)) else bytes(d2)
            if byte < covered and twin != 'noflip':
                # technique C: a changed byte changes the CRC-32C of equally long inputs (h_crc_lemmas discharges the
                # step facts on the real loop body); stated for the full protected span
                a, b = crc(data[:covered]), crc(d2[:covered])
                ctx.assume(Not(a == b))
        else:
            d2 = bytearray(data)
            if twin != 'noflip':
                d2[byte] ^= 0x80 >> bit
            d2 = bytes(d2)
        ctx.require(_rejected(d2), 'single-bit corruption of CRC-protected input is rejected')
    ctx.observe('bits', hi - lo)


def h_badref(ctx, shape, cell, ref, opts, kind):
    """a reference index replaced by a symbolic value that is backward/self (<= own index) or dangling (>= cell count)"""
    cells, order, ecs = _ecells(ctx, SHAPES[shape])
    crc = install_crc_stub(ctx)
    n = len(ecs)
    v = ctx.uint('ref', 8)
    ctx.assume(v <= cell if kind == 'backward' else v >= n)

    class SymRef:
        pass
    # encode with a placeholder, then splice the symbolic byte in at the position of that reference
    data = bocspec.encode(ecs, crc_fn=crc, **dict(opts, has_crc=False))
    marker = ecs[cell].refs[ref]
    # locate the reference byte: re-encode with a distinct concrete value and diff
    ecs2 = [bocspec.ECell(e.bits, list(e.refs), e.exotic, e.mask, e.hashes, e.depths) for e in ecs]
    ecs2[cell].refs[ref] = (marker + 1) % 256 if (marker + 1) % 256 != marker else 0
    data2 = bocspec.encode(ecs2, crc_fn=crc, **dict(opts, has_crc=False))
    diff = [i for i in range(len(data)) if not _same_byte(data, data2, i)]
    assert len(diff) == 1, diff
    p = diff[0]
    vb = v.to_bytes(1, 'big')
    bad = data[:p] + vb + data[p + 1:]
    if opts.get('has_crc'):
        bad = bad + crc(bad)
    ctx.require(_rejected(bad), f'{kind} reference is rejected')


def _same_byte(a, b, i):
    x, y = a[i:i + 1], b[i:i + 1]
    if isinstance(x, bytes) and isinstance(y, bytes):
        return x == y
    r = x == y
    return r if isinstance(r, bool) else True       # symbolic content bytes are the same terms in both encodings


def h_crc_lemmas(ctx, which):
    """technique B on the real crc32c loop body: facts that make 'equally long inputs differing in one byte have
    different CRCs' true for every length"""
    from harness import C18
    sl = C18.slice_fold('crc32c')
    assert sl is not None
    g = C18.run_prelude(sl, ctx.symbolic)

    def step(s, b):
        g2 = dict(g)
        g2[sl['state']] = s
        g2[sl['item']] = b
        exec(C18._compile(list(sl['body']), ctx.symbolic, 'body'), g2)
        return g2[sl['state']]
    s = ctx.uint('s', 32)
    if which == 'inj_state':
        t, b = ctx.uint('t', 32), ctx.uint('b', 8)
        ctx.require(Implies(step(s, b) == step(t, b), s == t), 'crc32c step is injective in the register (a difference persists)')
    else:
        b, d = ctx.uint('b', 8), ctx.uint('d', 8)
        ctx.assume(d != 0)
        ctx.require(step(s, b) != step(s, b ^ d), 'a changed byte changes the register')


# ------------------------------------------------------------------------------- instances
def topo_orders(shape):
    n = len(shape)
    out = []
    for perm in itertools.permutations(range(n)):
        pos = {c: k for k, c in enumerate(perm)}
        if all(pos[i] < pos[j] for i in range(n) for j in shape[i]):
            out.append(list(perm))
    return out


def instances(tier, seed):
    rnd = random.Random(seed)
    from harness import C18
    fold = C18.slice_fold('crc32c') is not None
    if fold:
        yield 'h_crc_lemmas', dict(which='inj_state')
        yield 'h_crc_lemmas', dict(which='one_byte')
    combos = []
    for name, shape in SHAPES.items():
        n = len(shape)
        for size in (None, 2, 3, 4):
            for off in (None, 2, 8):
                for (idx, cb, crcf) in ((False, False, False), (True, False, False), (True, True, True), (False, False, True), (True, False, True)):
                    combos.append(dict(shape=name, size=size, off_bytes=off, has_idx=idx, has_cache_bits=cb, has_crc=crcf))
    pick = combos if tier == 'thorough' else [c for i, c in enumerate(combos) if i % 5 == seed % 5] + \
        [c for c in combos if c['size'] == 4 and c['shape'] == 'one' and not c['has_idx']][:3]
    for c in pick:
        yield 'h_accept', c
    # other valid topological orders, several roots, a root that is not cell 0
    for name, shape in SHAPES.items():
        for o in topo_orders(shape)[1:3]:
            yield 'h_accept', dict(shape=name, order=o, has_idx=True, has_crc=True)
        n = len(shape)
        if n >= 2:
            yield 'h_accept', dict(shape=name, roots=[0, 1])
            yield 'h_accept', dict(shape=name, roots=[n - 1], has_crc=True)
            yield 'h_accept', dict(shape=name, roots=[1, 0, n - 1], has_idx=True, size=2)
    # stored hashes on subsets of cells
    for name in ('pair', 'share', 'diamond'):
        n = len(SHAPES[name])
        for hs in ([0], [n - 1], list(range(n))):
            yield 'h_accept', dict(shape=name, hashes=hs, has_crc=True)
            yield 'h_accept', dict(shape=name, hashes=hs, has_idx=True, has_cache_bits=True, off_bytes=3)
    for ex, m in (('mproof_ord_pruned', 1), ('mproof_ord_pruned', 3), ('ord_over_two_pruned', 3), ('ord_over_two_pruned', 5), ('mupd', 1), ('ord_over_library', 1)):
        yield 'h_accept', dict(exotic=ex, m=m)
        yield 'h_accept', dict(exotic=ex, m=m, hashes='all', has_crc=True)
    # the largest serialised cells: 1023 bits, 4 references, level mask 7/5/1, with and without stored hashes, every size
    for m in (7, 5, 1):
        for size in (None, 2, 4) if tier == 'quick' else (None, 2, 3, 4):
            yield 'h_accept', dict(exotic='max_over_pruned', m=m, hashes='all', has_crc=(m == 7), size=size)
            yield 'h_accept', dict(exotic='max_over_pruned', m=m, hashes=[0], has_idx=True, size=size)
        yield 'h_accept', dict(exotic='max_over_pruned', m=m, size=4)
    # legacy magics
    for name in SHAPES:
        for magic in ('idx', 'idx_crc'):
            for size in (None, 2):
                yield 'h_accept', dict(shape=name, magic=magic, size=size)
    # rejection
    opts_set = [dict(), dict(has_idx=True, has_crc=True), dict(has_idx=True, has_cache_bits=True, has_crc=True, size=2, off_bytes=2), dict(has_crc=True)]
    for name in (('pair', 'share') if tier == 'quick' else SHAPES):
        for o in opts_set:
            yield 'h_truncate', dict(shape=name, opts=o)
            for k in (1, 2, 4):
                yield 'h_extend', dict(shape=name, opts=o, k=k)
    if fold:
        for name in (('pair', 'share') if tier == 'quick' else SHAPES):
            for o in ([opts_set[1], opts_set[3]] if tier == 'quick' else opts_set[1:]):
                nbytes = 60
                for lo in range(0, 8 * nbytes, 64):
                    yield 'h_flip', dict(shape=name, opts=o, lo=lo, hi=lo + 64)
    for name, shape in SHAPES.items():
        for ci, refs in enumerate(shape):
            for ri in range(len(refs)):
                for kind in ('backward', 'dangling'):
                    for o in (dict(), dict(has_crc=True, has_idx=True)):
                        yield 'h_badref', dict(shape=name, cell=ci, ref=ri, opts=o, kind=kind)


def twins(tier, seed):
    yield 'h_accept', dict(shape='pair', roots=[0, 1], twin='swap')
    yield 'h_flip', dict(shape='pair', opts=dict(has_crc=True), lo=40, hi=48, twin='noflip')


INSTANCE_TIMEOUT = {'quick': 200, 'thorough': 900}
BOUNDS = {
    'DAGs': ', '.join(f'{k}{v}' for k, v in SHAPES.items()) + '; exotic trees from C02; all contents symbolic',
    'freedoms': 'size 1..4, off_bytes min/2/8, index, cache bits, CRC (quick: a seeded fifth of the 360 combinations); other topological orders; '
                '1..3 roots incl. a root that is not cell 0; the largest serialised cell (1023 bits, 4 references, level mask 7, stored hashes, size 1..4); stored hashes on the first/last/all cells and on exotic cells with masks 1,3,5; both legacy magics',
    'rejection': 'every truncation length; extension by 1, 2, 4 symbolic bytes; every single-bit flip position of CRC-protected input; '
                 'every reference replaced by any backward/self or dangling index',
}
OUTSIDE = ['absent cells (absent > 0)', 'slack bytes inside cell_data and several roots through Slice/Builder.one_from_boc (not among the rejection classes of the property)',
           'DAGs of more than 5 cells']
STUBS = ['crc32c inside the BoC code: memoised uninterpreted function plus, for flips, the fact "equally long inputs differing in one byte have different CRCs" '
         '(from the two step lemmas discharged on the real loop body in h_crc_lemmas)', 'hashlib.sha256: injective uninterpreted function']
ASSUMPTIONS = ['specs/bocspec.py strict encoder is a faithful reading of boc.tlb']
