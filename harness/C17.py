"""C17 - TVM stack values round-trip and serialising does not consume them.

Engine A on VmStack/VmStackList/VmStackValue/VmTuple/VmTupleRef/VmCellSlice/VmCont/VmControlData/VmSaveList.
Oracle: the VmStack schema of block.tlb written out below (encoder to specification cells).  Symbolic: integers over
the 257-bit range (form selection decided for all values), cell/slice/builder contents, continuation fields.
Enumerated: stack depth, value kinds, tuple nestings and lengths, continuation kinds, consumed bits/refs of slices.
"""
import itertools

from sx.api import *
from sx import core as C
from specs.cellspec import *
from specs.enc import *
from pytoniq_core.boc import Builder, Cell, Slice
from pytoniq_core.tlb.vm_stack import VmStack, VmStackList, VmStackValue, VmTuple, VmTupleRef, VmCellSlice, VmCont, VmControlData, VmSaveList

PROPERTY = 'C17'


# ------------------------------------------------------------------------------- value descriptions
# a value description is a nested tuple; make() builds (library value, spec encoder data)
class Val:
    """library value + how the specification sees it"""
    def __init__(self, kind, lib, **kw):
        self.kind, self.lib = kind, lib
        self.__dict__.update(kw)


def mk_cell(ctx, name, nbits=9, nrefs=1):
    kids = [SC(ORD, ctx.bitstr(f'{name}_k{i}', 3 + i), []) for i in range(nrefs)]
    return SC(ORD, ctx.bitstr(name, nbits), kids)


def make(ctx, d, name):
    k = d[0]
    if k == 'null':
        return Val('null', None)
    if k == 'int':
        w = d[1]
        v = ctx.sint(name, w)
        if w >= 64:
            ctx.assume(v != -(1 << 63))        # representable in either integer form: left to h_int_forms
        return Val('int', v, v=v)
    if k == 'cell':
        sc = mk_cell(ctx, name)
        return Val('cell', to_real(sc), sc=sc)
    if k == 'builder':
        sc = mk_cell(ctx, name, 11, 2)
        rc = to_real(sc)
        return Val('builder', rc.to_builder(), sc=sc)
    if k == 'slice':
        skip_bits, skip_refs = d[1], d[2]
        sc = mk_cell(ctx, name, 14, 2)
        s = to_real(sc).begin_parse()
        if skip_bits:
            s.skip_bits(skip_bits)
        for _ in range(skip_refs):
            s.load_ref()
        rest = SC(ORD, sc.bits[skip_bits:], sc.refs[skip_refs:])
        return Val('slice', s, sc=rest)
    if k == 'tuple':
        items = [make(ctx, x, f'{name}_{i}') for i, x in enumerate(d[1])]
        return Val('tuple', VmTuple([it.lib for it in items]), items=items)
    if k == 'cont':
        return make_cont(ctx, d[1], name)
    raise ValueError(d)


def make_cont(ctx, d, name):
    t = d[0]
    if t in ('vmc_quit',):
        v = ctx.sint(name + '_ec', 32)
        return Val('cont', VmCont(t, exit_code=v), t=t, exit_code=v)
    if t == 'vmc_quit_exc':
        return Val('cont', VmCont(t), t=t)
    if t == 'vmc_pushint':
        v = ctx.sint(name + '_v', 32)
        nxt = make_cont(ctx, d[1], name + 'n')
        return Val('cont', VmCont(t, value=v, next=nxt.lib), t=t, value=v, next=nxt)
    if t == 'vmc_repeat':
        cnt = ctx.uint(name + '_c', 63)
        body, after = make_cont(ctx, d[1], name + 'b'), make_cont(ctx, d[2], name + 'a')
        return Val('cont', VmCont(t, count=cnt, body=body.lib, after=after.lib), t=t, count=cnt, body=body, after=after)
    if t == 'vmc_until':
        body, after = make_cont(ctx, d[1], name + 'b'), make_cont(ctx, d[2], name + 'a')
        return Val('cont', VmCont(t, body=body.lib, after=after.lib), t=t, body=body, after=after)
    if t == 'vmc_again':
        body = make_cont(ctx, d[1], name + 'b')
        return Val('cont', VmCont(t, body=body.lib), t=t, body=body)
    if t in ('vmc_while_cond', 'vmc_while_body'):
        c, b, a = (make_cont(ctx, d[i], name + 'cba'[i - 1]) for i in (1, 2, 3))
        return Val('cont', VmCont(t, cond=c.lib, body=b.lib, after=a.lib), t=t, cond=c, body=b, after=a)
    if t in ('vmc_std', 'vmc_envelope'):
        nargs = ctx.uint(name + '_na', 13) if d[1] else None
        cp = ctx.sint(name + '_cp', 16) if d[2] else None
        cdata = VmControlData('vm_ctl_data', nargs=nargs, stack=None, save=None, cp=cp)
        if t == 'vmc_std':
            code = make(ctx, ('slice', 2, 1), name + 'code')
            return Val('cont', VmCont(t, cdata=cdata, code=code.lib), t=t, nargs=nargs, cp=cp, code=code)
        nxt = make_cont(ctx, d[3], name + 'n')
        return Val('cont', VmCont(t, cdata=cdata, next=nxt.lib), t=t, nargs=nargs, cp=cp, next=nxt)
    raise ValueError(d)


# ------------------------------------------------------------------------------- the schema (encoder)
def enc_value(v, force_long=False):
    """(bits, refs) of a VmStackValue"""
    k = v.kind
    if k == 'null':
        return '00000000', []
    if k == 'int':
        x = v.v
        fits = And(x >= -(1 << 63), x < (1 << 63))
        if (fits if isinstance(fits, bool) else bool(fits)) and not force_long:
            return cat_bits('00000001', enc_int(x, 64)), []
        return cat_bits('000000100000000', enc_int(x, 257)), []
    if k == 'cell':
        return '00000011', [v.sc]
    if k == 'builder':
        return '00000101', [v.sc]
    if k == 'slice':
        n, r = len(v.sc.bits), len(v.sc.refs)
        return cat_bits('00000100', enc_uint(0, 10), enc_uint(n, 10), enc_uint(0, 3), enc_uint(r, 3)), [v.sc]
    if k == 'tuple':
        b, r = enc_tuple(v.items)
        return cat_bits('00000111', enc_uint(len(v.items), 16), b), r
    if k == 'cont':
        b, r = enc_cont(v)
        return cat_bits('00000110', b), r
    raise ValueError(k)


def value_cell(v):
    b, r = enc_value(v)
    return SC(ORD, b, r)


def enc_tuple(items):
    """VmTuple n: nil | head:(VmTupleRef n-1) tail:^VmStackValue"""
    n = len(items)
    if n == 0:
        return '', []
    hb, hr = enc_tupref(items[:-1])
    return hb, hr + [value_cell(items[-1])]


def enc_tupref(items):
    n = len(items)
    if n == 0:
        return '', []
    if n == 1:
        return '', [value_cell(items[0])]
    b, r = enc_tuple(items)
    return '', [SC(ORD, b, r)]


def enc_cdata(v):
    b = '0' if v.nargs is None else cat_bits('1', enc_uint(v.nargs, 13))
    b = cat_bits(b, '0')            # stack: nothing
    b = cat_bits(b, '0')            # save: empty HashmapE
    b = cat_bits(b, '0' if v.cp is None else cat_bits('1', enc_int(v.cp, 16)))
    return b, []


def cont_cell(v):
    b, r = enc_cont(v)
    return SC(ORD, b, r)


def enc_cont(v):
    t = v.t
    if t == 'vmc_std':
        cb, cr = enc_cdata(v)
        n, r = len(v.code.sc.bits), len(v.code.sc.refs)
        return cat_bits('00', cb, enc_uint(0, 10), enc_uint(n, 10), enc_uint(0, 3), enc_uint(r, 3)), cr + [v.code.sc]
    if t == 'vmc_envelope':
        cb, cr = enc_cdata(v)
        return cat_bits('01', cb), cr + [cont_cell(v.next)]
    if t == 'vmc_quit':
        return cat_bits('1000', enc_int(v.exit_code, 32)), []
    if t == 'vmc_quit_exc':
        return '1001', []
    if t == 'vmc_repeat':
        return cat_bits('10100', enc_uint(v.count, 63)), [cont_cell(v.body), cont_cell(v.after)]
    if t == 'vmc_until':
        return '110000', [cont_cell(v.body), cont_cell(v.after)]
    if t == 'vmc_again':
        return '110001', [cont_cell(v.body)]
    if t == 'vmc_while_cond':
        return '110010', [cont_cell(v.cond), cont_cell(v.body), cont_cell(v.after)]
    if t == 'vmc_while_body':
        return '110011', [cont_cell(v.cond), cont_cell(v.body), cont_cell(v.after)]
    if t == 'vmc_pushint':
        return cat_bits('1111', enc_int(v.value, 32)), [cont_cell(v.next)]
    raise ValueError(t)


def enc_stack(vals):
    """vm_stack#_ depth:(## 24) stack:(VmStackList depth);  vm_stk_cons: rest:^(VmStackList n) tos:VmStackValue"""
    def lst(vs):
        if not vs:
            return SC(ORD, '', [])
        b, r = enc_value(vs[-1])
        return SC(ORD, b, [lst(vs[:-1])] + r)
    top = lst(vals)
    return SC(ORD, cat_bits(enc_uint(len(vals), 24), top.bits), top.refs)


# ------------------------------------------------------------------------------- comparison
def same_structure(rc, sc):
    ok = And(rc.bits.to01() == sc.bits, rc.type_ == sc.typ, len(rc.refs) == len(sc.refs))
    if len(rc.refs) == len(sc.refs):
        for r, s in zip(rc.refs, sc.refs):
            ok = And(ok, same_structure(r, s))
    return ok


def equal_value(got, v):
    """the parsed value equals the original one"""
    k = v.kind
    if k == 'null':
        return got is None
    if k == 'int':
        return (got == v.v) if isinstance(got, (int, C.SymInt)) and not isinstance(got, bool) else False
    if k == 'cell':
        return same_structure(got, v.sc) if isinstance(got, Cell) else False
    if k == 'builder':
        if not isinstance(got, Builder):
            return False
        return And(got.bits.to01() == v.sc.bits, len(got.refs) == len(v.sc.refs),
                   *[same_structure(a, b) for a, b in zip(got.refs, v.sc.refs)])
    if k == 'slice':
        if not isinstance(got, Slice):
            return False
        return And(got.bits.to01() == v.sc.bits, got.remaining_refs == len(v.sc.refs),
                   *[same_structure(got.preload_ref(i), b) for i, b in enumerate(v.sc.refs) if i < got.remaining_refs])
    if k == 'tuple':
        if not isinstance(got, VmTuple) or len(got) != len(v.items):
            return False
        return And(*[equal_value(g, it) for g, it in zip(got.list, v.items)]) if v.items else True
    if k == 'cont':
        return equal_cont(got, v)
    return False


def equal_cont(got, v):
    if not isinstance(got, VmCont) or got.type_ != v.t:
        return False
    t = v.t
    g = lambda n: getattr(got, n, None)
    if t == 'vmc_quit':
        return g('exit_code') == v.exit_code
    if t == 'vmc_quit_exc':
        return True
    if t == 'vmc_pushint':
        return And(g('value') == v.value, equal_cont(g('next'), v.next))
    if t == 'vmc_repeat':
        return And(g('count') == v.count, equal_cont(g('body'), v.body), equal_cont(g('after'), v.after))
    if t == 'vmc_until':
        return And(equal_cont(g('body'), v.body), equal_cont(g('after'), v.after))
    if t == 'vmc_again':
        return equal_cont(g('body'), v.body)
    if t in ('vmc_while_cond', 'vmc_while_body'):
        return And(equal_cont(g('cond'), v.cond), equal_cont(g('body'), v.body), equal_cont(g('after'), v.after))
    cd = g('cdata')
    if cd is None:
        return False
    na, cp = getattr(cd, 'nargs', None), getattr(cd, 'cp', None)
    ok = And((na is None) if v.nargs is None else (na is not None and na == v.nargs),
             (cp is None) if v.cp is None else (cp is not None and cp == v.cp),
             not getattr(cd, 'stack', None), not getattr(cd, 'save', None))
    if t == 'vmc_std':
        return And(ok, equal_value(g('code'), v.code))
    return And(ok, equal_cont(g('next'), v.next))


def snapshot(v):
    """observable state of a caller-held value (to detect consumption)"""
    k = v.kind
    if k == 'tuple':
        return ('tuple', len(v.lib.list), [id(x) for x in v.lib.list], [snapshot(it) for it in v.items])
    if k == 'slice':
        return ('slice', v.lib.remaining_bits, v.lib.remaining_refs)
    if k == 'builder':
        return ('builder', len(v.lib.bits), len(v.lib.refs))
    if k == 'cont':
        return ('cont', sorted(vars(v.lib)))
    return (k,)


# ------------------------------------------------------------------------------- harnesses
def h_stack(ctx, values, twin=None):
    vals = [make(ctx, d, f'x{i}') for i, d in enumerate(values)]
    data = [v.lib for v in vals]
    before = (len(data), [id(x) for x in data], [snapshot(v) for v in vals])
    cell = VmStack.serialize(data)
    spec = warm(enc_stack(vals if twin != 'rev' else vals[::-1]))
    ctx.require(same_structure(cell, spec), 'the cell is the VmStack encoding of the values')
    after = (len(data), [id(x) for x in data], [snapshot(v) for v in vals])
    ctx.require(before == after, "the caller's list and values are left unmodified")
    cell2 = VmStack.serialize(data)
    ctx.require(cell2.hash == cell.hash, 'serialising twice gives the same cell')
    # a builder the caller goes on using between two serialisations (same lengths, other content): the second cell holds what
    # the builder holds then
    for v in vals:
        if v.kind == 'builder' and len(v.lib.refs):
            other = Builder().store_uint(0x2b, 7).end_cell()
            refs = list(v.lib.refs)
            refs[0] = other
            v.lib.refs = refs
            changed = VmStack.serialize(data)
            sc2 = SC(ORD, v.sc.bits, [SC(ORD, '0101011', [])] + list(v.sc.refs[1:]))
            spec2 = warm(enc_stack([Val('builder', v.lib, sc=sc2) if x is v else x for x in vals]))
            ctx.require(same_structure(changed, spec2), 'a builder changed between two serialisations is serialised as it stands')
            v.sc = sc2
            cell = changed
            break
    back = VmStack.deserialize(cell.begin_parse())
    ctx.require(isinstance(back, list) and len(back) == len(vals), 'parsing returns as many values')
    if isinstance(back, list) and len(back) == len(vals):
        for i, (g, v) in enumerate(zip(back, vals)):
            ctx.require(equal_value(g, v), f'parsed {v.kind} equals the original, in order')
        # the parsed values belong to the caller: after the caller has changed them (tuples grown, the list emptied) a second
        # parse of the same cell still returns the original values, and the first result is not touched by it
        def tuples(x):
            if isinstance(x, VmTuple):
                yield x
                for y in list(x.list):
                    yield from tuples(y)
        for g in back:
            for t in tuples(g):
                t.list.append(12345)
        back.clear()
        again = VmStack.deserialize(cell.begin_parse())
        ctx.require(isinstance(again, list) and len(again) == len(vals), 'parsing again returns as many values')
        if isinstance(again, list) and len(again) == len(vals):
            for g, v in zip(again, vals):
                ctx.require(equal_value(g, v), f'parsed again after the caller changed the first result: {v.kind} equals the original')
    ctx.observe('depth', len(vals))


def h_int_forms(ctx, width=259):
    """integers over the 257-bit range: 64-bit form exactly for values that fit int64, 257-bit form otherwise"""
    x = ctx.sint('x', 257)
    cell = VmStack.serialize([x])
    bits = cell.bits.to01()
    fits = And(x >= -(1 << 63), x < (1 << 63))
    tiny = cat_bits(enc_uint(1, 24), '00000001', enc_int(x, 64))
    long_ = cat_bits(enc_uint(1, 24), '000000100000000', enc_int(x, 257))
    is_min = x == -(1 << 63)            # representable either way; the property does not pin the boundary value
    if len(bits) == len(tiny):
        ctx.require(And(fits, bits == tiny), 'small integer: vm_stk_tinyint with the 64-bit value')
    else:
        ctx.require(And(Or(Not(fits), is_min), bits == long_), 'large integer: vm_stk_int with the 257-bit value')
    back = VmStack.deserialize(cell.begin_parse())
    ctx.require(len(back) == 1 and back[0] == x, 'integer round trip')
    # the other valid form of a small integer is accepted by the parser as well
    if len(bits) == len(tiny):
        alt = Builder().store_bits(long_).store_ref(Cell.empty()).end_cell()
        b2 = VmStack.deserialize(alt.begin_parse())
        ctx.require(len(b2) == 1 and b2[0] == x, 'a small integer in the 257-bit form is parsed as well')


def h_foreign(ctx, values):
    """a stack encoded by the specification is parsed to the values"""
    vals = [make(ctx, d, f'x{i}') for i, d in enumerate(values)]
    cell = to_real(warm(enc_stack(vals)))
    tail = ctx.bitstr('tail', 3)
    back = VmStack.deserialize(cell.begin_parse())
    ctx.require(isinstance(back, list) and len(back) == len(vals), 'foreign: number of values')
    if isinstance(back, list) and len(back) == len(vals):
        for g, v in zip(back, vals):
            ctx.require(equal_value(g, v), f'foreign: parsed {v.kind} equals the encoded one')


def h_cont_cdata(ctx, kind, stack_vals, save, nargs=True, cp=True):
    """continuations whose control data carries a stack and saved registers, encoded by the specification:
    vm_ctl_data$_ nargs:(Maybe uint13) stack:(Maybe VmStack) save:VmSaveList cp:(Maybe int16);  _ cregs:(HashmapE 4 VmStackValue) = VmSaveList.
    The parser returns the control data's stack as the list of its values and the saved registers by index (as stored value
    slices), and goes on at the right place (code / next continuation)"""
    from specs import dictspec as D
    from harness.dict_common import keybits
    svals = [make(ctx, d, f's{i}') for i, d in enumerate(stack_vals)] if stack_vals != 'none' else []
    regs = {idx: make(ctx, d, f'c{idx}') for idx, d in save}
    na = ctx.uint('na', 13) if nargs else None
    cpv = ctx.sint('cp', 16) if cp else None
    b = '0' if na is None else cat_bits('1', enc_uint(na, 13))
    refs = []
    if stack_vals != 'none':
        st = enc_stack(svals)
        b = cat_bits(b, '1', st.bits)
        refs += list(st.refs)
    else:
        b = cat_bits(b, '0')
    if regs:
        root = D.encode(D.build([(keybits(i, 4), v) for i, v in sorted(regs.items())]), 4, lambda v: enc_value(v))
        b = cat_bits(b, '1')
        refs.append(root)
    else:
        b = cat_bits(b, '0')
    b = cat_bits(b, '0' if cpv is None else cat_bits('1', enc_int(cpv, 16)))
    if kind == 'vmc_std':
        code = make(ctx, ('slice', 2, 0), 'code')
        n, r = len(code.sc.bits), len(code.sc.refs)
        cb, cr = cat_bits('00', b, enc_uint(0, 10), enc_uint(n, 10), enc_uint(0, 3), enc_uint(r, 3)), refs + [code.sc]
    else:
        nxt = make_cont(ctx, ('vmc_quit',), 'nx')
        cb, cr = cat_bits('01', b), refs + [cont_cell(nxt)]
    top = SC(ORD, cat_bits('00000110', cb), [SC(ORD, '', [])] + cr)          # vm_stk_cons: rest:^nil tos:VmStackValue (vm_stk_cont#06)
    cell = to_real(warm(SC(ORD, cat_bits(enc_uint(1, 24), top.bits), top.refs)))
    back = VmStack.deserialize(cell.begin_parse())
    ctx.require(isinstance(back, list) and len(back) == 1 and isinstance(back[0], VmCont) and back[0].type_ == kind, 'control data: the continuation is parsed')
    if not (isinstance(back, list) and len(back) == 1 and isinstance(back[0], VmCont)):
        return
    cd = getattr(back[0], 'cdata', None)
    ctx.require(cd is not None, 'control data: present')
    if cd is None:
        return
    g_na, g_cp = getattr(cd, 'nargs', None), getattr(cd, 'cp', None)
    ctx.require((g_na is None) if na is None else (g_na is not None and g_na == na), 'control data: nargs')
    ctx.require((g_cp is None) if cpv is None else (g_cp is not None and g_cp == cpv), 'control data: cp')
    g_st = getattr(cd, 'stack', None)
    if stack_vals == 'none':
        ctx.require(not g_st, 'control data: no stack')
    else:
        ok = isinstance(g_st, list) and len(g_st) == len(svals)
        ctx.require(ok, 'control data: stack depth')
        if ok:
            for g, v in zip(g_st, svals):
                ctx.require(equal_value(g, v), f'control data: stack value ({v.kind})')
    g_sv = getattr(cd, 'save', None)
    if not regs:
        ctx.require(not g_sv, 'control data: empty save list')
    else:
        ok = isinstance(g_sv, dict) and sorted(g_sv) == sorted(regs)
        ctx.require(ok, 'control data: saved register indices')
        if ok:
            for i, v in regs.items():
                got = g_sv[i]
                eb, er = enc_value(v)
                if isinstance(got, Slice):
                    ctx.require(And(got.bits.to01() == eb, got.remaining_refs == len(er)), 'control data: saved register holds the stored value')
                else:
                    ctx.require(equal_value(got, v), 'control data: saved register holds the stored value')
    if kind == 'vmc_std':
        ctx.require(equal_value(getattr(back[0], 'code', None), code), 'control data: the code slice behind it')
    else:
        ctx.require(equal_cont(getattr(back[0], 'next', None), nxt) if isinstance(getattr(back[0], 'next', None), VmCont) and getattr(back[0].next, 'type_', None) == 'vmc_quit'
                    and getattr(back[0].next, 'exit_code', None) is not None else False, 'control data: the next continuation behind it')


# ------------------------------------------------------------------------------- instances
Q = ('cont', ('vmc_quit',))
QE = ('cont', ('vmc_quit_exc',))
ATOMS = [('null',), ('int', 40), ('int', 70), ('cell',), ('builder',), ('slice', 0, 0), ('slice', 3, 1), ('slice', 14, 2)]
TUPLES = [('tuple', []), ('tuple', [('int', 20)]), ('tuple', [('int', 20), ('null',)]), ('tuple', [('int', 20), ('cell',), ('null',)]),
          ('tuple', [('null',), ('int', 9), ('cell',), ('slice', 1, 0)]), ('tuple', [('tuple', [])]),
          ('tuple', [('tuple', [('int', 8), ('tuple', [('null',), ('int', 5)])]), ('int', 7)]),
          ('tuple', [('null',)] * 5)]
CONTS = [Q, QE, ('cont', ('vmc_pushint', ('vmc_quit',))), ('cont', ('vmc_repeat', ('vmc_quit_exc',), ('vmc_quit',))),
         ('cont', ('vmc_until', ('vmc_quit',), ('vmc_quit_exc',))), ('cont', ('vmc_again', ('vmc_quit',))),
         ('cont', ('vmc_while_cond', ('vmc_quit',), ('vmc_quit_exc',), ('vmc_quit',))),
         ('cont', ('vmc_while_body', ('vmc_quit_exc',), ('vmc_quit',), ('vmc_quit',))),
         ('cont', ('vmc_std', False, False)), ('cont', ('vmc_std', True, True)), ('cont', ('vmc_std', True, False)),
         ('cont', ('vmc_envelope', False, True, ('vmc_quit',))), ('cont', ('vmc_envelope', True, False, ('vmc_pushint', ('vmc_quit_exc',))))]


def instances(tier, seed):
    yield 'h_int_forms', dict()
    yield 'h_stack', dict(values=[])
    for v in ATOMS + TUPLES + CONTS:
        yield 'h_stack', dict(values=[v])
        yield 'h_foreign', dict(values=[v])
    for kind in ('vmc_std', 'vmc_envelope'):
        for stack_vals in ('none', [], [('int', 30)], [('int', 70), ('null',)]):
            for save in ([], [(0, ('int', 9))], [(7, ('null',)), (2, ('int', 66))]):
                if kind == 'vmc_std' and stack_vals not in ('none', []) and save:
                    continue          # would need more than four references
                yield 'h_cont_cdata', dict(kind=kind, stack_vals=stack_vals, save=save, nargs=bool(len(save) % 2), cp=(stack_vals != 'none'))
    pool = [('null',), ('int', 12), ('cell',), ('slice', 3, 1), ('builder',), TUPLES[2], TUPLES[6], CONTS[2], CONTS[9]]
    pairs = list(itertools.product(pool, repeat=2))
    if tier == 'quick':
        pairs = [p for i, p in enumerate(pairs) if i % 3 == seed % 3]
    for p in pairs:
        yield 'h_stack', dict(values=list(p))
    yield 'h_stack', dict(values=[('int', 12), ('null',), TUPLES[3], ('cell',)])
    yield 'h_stack', dict(values=[TUPLES[2], TUPLES[2], CONTS[3], ('slice', 3, 1)])
    yield 'h_foreign', dict(values=[('int', 12), TUPLES[6], CONTS[11], ('builder',)])
    if tier == 'thorough':
        import random
        rnd = random.Random(seed)
        trip = list(itertools.product(pool, repeat=3))
        for p in rnd.sample(trip, 150):
            yield 'h_stack', dict(values=list(p))
        yield 'h_stack', dict(values=[('int', 6)] * 40)


def twins(tier, seed):
    yield 'h_stack', dict(values=[('int', 12), ('null',)], twin='rev')


INSTANCE_TIMEOUT = {'quick': 200, 'thorough': 900}
BOUNDS = {
    'integers': 'every value of the 257-bit range (h_int_forms); narrower symbolic integers inside larger stacks',
    'stacks': 'depth 0, 1 (every value kind), 2 (quick: a third of the 81 pairs over 9 kinds; thorough: all, plus 150 seeded triples and a depth-40 stack)',
    'tuples': 'lengths 0..5 and nestings to depth 3, elements of every atom kind',
    'continuations': 'every constructor of VmCont; vmc_std/vmc_envelope with nargs and cp present or absent (values symbolic), empty save list, no stack',
    'slices': '0, 3, 14 consumed bits and 0..2 consumed references',
}
BOUNDS['control data'] = 'vmc_std / vmc_envelope whose control data holds a stack of depth 0..2 and 0..2 saved registers, encoded by the specification: parsed values, register indices and what follows'
OUTSIDE = ['SERIALISING continuations whose control data holds a stack or a non-empty save list (serialize takes a cell / dictionary cell there, parse returns a list / mapping: no common value form; the parse direction is covered by h_cont_cdata)',
           'vm_stk_nan and byte-string values (not in the property)', 'stack depth above 40']
STUBS = ['hashlib.sha256: injective uninterpreted function']
ASSUMPTIONS = ['the VmStack schema as written in this file from block.tlb', '-2^63 may use either integer form']
