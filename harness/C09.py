"""C09 - dictionary (HashMap) serialise / parse round trip.

Engine A on HashMap.set/set_int_key/serialize/parse/from_cell, hashmap.utils.*, hashmap.parse.*, Slice.load_dict/
preload_dict/load_hashmap, Builder.store_dict.  Values are symbolic; keys are enumerated (every key set of the small
widths, in several insertion orders) or symbolic (fully for small widths, an 8-bit window for wide keys: dict keys then
compare symbolically and the prefix structure is explored by solver-decided forks).
"""
import itertools
import random

from harness.dict_common import *

PROPERTY = 'C09'
DictError = hm_mod('hashmap').DictError


def _parse(ctx, route, cell, width, V, rem):
    def deser(s):
        v = V.deser(s)
        if not isinstance(V, VCell):
            rem.append(And(s.remaining_bits == 0, s.remaining_refs == 0))
        return v
    if route == 'parse':
        return HashMap.parse(cell.begin_parse(), width, None, deser)
    if route == 'load_hashmap':
        return cell.begin_parse().load_hashmap(width, None, deser)
    if route == 'from_cell':
        m = HashMap.from_cell(cell, width).map
        return {k: deser(s) for k, s in m.items()}
    if route in ('load_dict_after_ref', 'preload_dict_after_ref'):
        # the optional dictionary is not the first reference of its cell: a header reference is read before it, and another
        # dictionary follows it
        tail = ctx.bitstr('tail', 5)
        hdr = Builder().store_uint(9, 4).end_cell()
        other = HashMap(width).with_uint_values(8).set_int_key(0, 1).set_int_key((1 << width) - 1, 2).serialize()
        s = Builder().store_ref(hdr).store_uint(5, 3).store_dict(cell).store_dict(other).store_bits(tail).end_cell().begin_parse()
        ctx.require(s.load_ref().begin_parse().load_uint(4) == 9, 'wrapper: header reference')
        ctx.require(s.load_uint(3) == 5, 'wrapper: prefix')
        if route == 'preload_dict_after_ref':
            res = s.preload_dict(width, None, deser)
            ctx.require(And(s.remaining_bits == 7, s.remaining_refs == 2), 'wrapper: preload consumes nothing')
        else:
            res = s.load_dict(width, None, deser)
            ctx.require(And(s.remaining_bits == 6, s.remaining_refs == 1), 'wrapper: load consumes the bit and the reference')
        nxt = s.load_dict(width, None, lambda x: x.load_uint(8)) if route != 'preload_dict_after_ref' else None
        if nxt is not None:
            ctx.require(list(nxt.items()) == [(0, 1), ((1 << width) - 1, 2)], 'wrapper: the dictionary that follows is the other one')
        return res
    if route in ('load_dict', 'preload_dict'):
        tail = ctx.bitstr('tail', 5)
        s = Builder().store_uint(5, 3).store_dict(cell).store_bits(tail).end_cell().begin_parse()
        ctx.require(s.load_uint(3) == 5, 'wrapper: prefix')
        if route == 'preload_dict':
            res = s.preload_dict(width, None, deser)
            ctx.require(And(s.remaining_bits == 6, s.remaining_refs == 1), 'wrapper: preload consumes nothing')
        else:
            res = s.load_dict(width, None, deser)
            ctx.require(And(s.bits.to01() == tail, s.remaining_refs == 0), 'wrapper: load consumes the bit and the reference')
        return res
    raise ValueError(route)


def h_roundtrip(ctx, width, keys, vk='u8', route='parse', key_form='int', twin=None):
    """concrete key set in a given insertion order, symbolic values"""
    V = vkind(vk)
    uniq = sorted(set(keys))
    vals = {k: V.make(ctx, f'v{k}') for k in uniq}
    stale = {k: V.make(ctx, f'old{k}') for k in uniq if keys.count(k) > 1}

    def put(hm, k, v):
        if key_form == 'int':
            hm.set_int_key(k, v)
        elif key_form == 'set':
            hm.set(k, v)
        elif key_form == 'str':
            hm.set(keybits(k, width), v)
        elif key_form == 'bytes':
            hm.set(k.to_bytes(width // 8, 'big'), v)
    hm = V.conf(HashMap(width))
    seen = set()
    for i, k in enumerate(keys):
        last = k not in keys[i + 1:]
        put(hm, k, vals[k] if last else stale[k])          # a later write to the same key replaces the earlier one
    cell = hm.serialize()
    ctx.require(cell is not None, 'non-empty map serialises to a cell')
    rem = []
    res = _parse(ctx, route, cell, width, V, rem)
    ctx.require(res is not None, 'parse returns a mapping')
    got = list(res.items())
    ctx.require(len(got) == len(uniq), 'number of pairs')
    if twin == 'shift':
        uniq = uniq[1:] + uniq[:1]
    for (gk, gv), k in zip(got, uniq):
        ctx.require(gk == k, 'keys returned in ascending order')
        ctx.require(V.eq(gv, vals[k]), 'value returned for its key')
    for r in rem:
        ctx.require(r, 'value occupies the whole leaf remainder')
    # insertion order is irrelevant
    hm2 = V.conf(HashMap(width))
    for k in reversed(uniq):
        hm2.set_int_key(k, vals[k])
    c2 = hm2.serialize()
    ctx.require(c2.hash == cell.hash, 'insertion order does not change the cell')
    ctx.observe('root bits', cell.bits.to01())


def h_two_maps(ctx, width, keys1, keys2):
    """two maps built one after the other in the same process do not influence each other (and a map created
    afterwards is empty)"""
    v1 = {k: ctx.uint(f'a{k}', 8) for k in keys1}
    v2 = {k: ctx.uint(f'b{k}', 8) for k in keys2}
    m1 = HashMap(width).with_uint_values(8)
    for k in keys1:
        m1.set_int_key(k, v1[k])
    c1 = m1.serialize()
    m2 = HashMap(width).with_uint_values(8)
    for k in keys2:
        m2.set_int_key(k, v2[k])
    c2 = m2.serialize()
    for cell, vals, tag in ((c2, v2, 'second'), (c1, v1, 'first'), (m1.serialize(), v1, 'first again')):
        res = HashMap.parse(cell.begin_parse(), width, None, lambda s: s.load_uint(8))
        got = list(res.items())
        ctx.require(len(got) == len(vals), f'two maps: the {tag} map has exactly its own pairs')
        for (gk, gv), k in zip(got, sorted(vals)):
            ctx.require(And(gk == k, gv == vals[k]), f'two maps: pairs of the {tag} map')
    ctx.require(HashMap(width).with_uint_values(8).serialize() is None, 'two maps: a new map is empty')


def h_incremental(ctx, width, keys, steps):
    """one map object used over time: serialised, changed, serialised again.  After every step the cell is the one a freshly
    built map with the current pairs gives, and parses back to the current pairs.  steps: ('int', k) set_int_key, ('set', k) set,
    ('del', k) removal through the public mapping, ('vals',) switching the value kind helpers again"""
    cur = {}
    n = [0]

    def fresh_val():
        n[0] += 1
        return ctx.uint(f'v{n[0]}', 8)
    hm = HashMap(width).with_uint_values(8)
    for k in keys:
        cur[k] = fresh_val()
        hm.set_int_key(k, cur[k])

    def check(tag):
        cell = hm.serialize()
        ref = HashMap(width).with_uint_values(8)
        for k in sorted(cur):
            ref.set_int_key(k, cur[k])
        want = ref.serialize()
        if not cur:
            ctx.require(cell is None, f'incremental use: empty again {tag}')
            return
        ctx.require(cell is not None and want is not None and cell.hash == want.hash, f'incremental use: the cell is that of a fresh map with the current pairs ({tag})')
        if cell is None:
            return
        got = list(HashMap.parse(cell.begin_parse(), width, None, lambda s: s.load_uint(8)).items())
        ctx.require(len(got) == len(cur), f'incremental use: number of pairs ({tag})')
        for (gk, gv), k in zip(got, sorted(cur)):
            ctx.require(And(gk == k, gv == cur[k]), f'incremental use: pairs ({tag})')
    check('first')
    for st in steps:
        if st[0] == 'int':
            cur[st[1]] = fresh_val()
            hm.set_int_key(st[1], cur[st[1]])
        elif st[0] == 'set':
            cur[st[1]] = fresh_val()
            hm.set(st[1], cur[st[1]])
        elif st[0] == 'del':
            del hm.map[st[1]]
            del cur[st[1]]
        elif st[0] == 'vals':
            hm.with_uint_values(8)
        check('after ' + st[0])


def h_empty(ctx, width):
    hm = HashMap(width).with_uint_values(8)
    ctx.require(hm.serialize() is None, 'empty map is no cell')
    tail = ctx.bitstr('tail', 4)
    s = Builder().store_dict(hm.serialize()).store_bits(tail).end_cell().begin_parse()
    ctx.require(s.preload_dict(width) is None, 'empty: preload_dict is None')
    ctx.require(s.load_dict(width) is None, 'empty: load_dict is None')
    ctx.require(And(s.bits.to01() == tail, s.remaining_refs == 0), 'empty: one bit consumed')


def _pattern(fill, width, i):
    if fill == 'zeros':
        return 0
    if fill == 'ones':
        return (1 << width) - 1
    if fill == 'alt':
        return int(('10' * width)[:width], 2)
    if fill == 'diff':        # the keys differ outside the window as well
        return int((('10' if i % 2 else '01') * width)[:width], 2)
    raise ValueError(fill)


def h_symkeys(ctx, width, nk, win=None, pos=0, fill='zeros', vk='u8', twin=None):
    """symbolic keys: fully (win=None) or in a window of `win` bits at bit position `pos`"""
    V = vkind(vk)
    keys = []
    for i in range(nk):
        if win is None:
            k = ctx.uint(f'k{i}', width)
        else:
            base = _pattern(fill, width, i) & ~(((1 << win) - 1) << pos)
            k = base + (ctx.uint(f'k{i}', win) << pos)
        keys.append(k)
    vals = [V.make(ctx, f'v{i}') for i in range(nk)]
    hm = V.conf(HashMap(width))
    for k, v in zip(keys, vals):
        hm.set_int_key(k, v)
    cell = hm.serialize()
    rem = []
    res = _parse(ctx, 'parse', cell, width, V, rem)
    got = list(res.items())
    distinct = []                      # last write wins
    for i in reversed(range(nk)):
        dup = False
        for j in distinct:
            e = keys[i] == keys[j]
            if e if isinstance(e, bool) else bool(e):
                dup = True
        if not dup:
            distinct.append(i)
    ctx.require(len(got) == len(distinct), 'symbolic keys: number of pairs')
    for a, b in zip(got, got[1:]):
        ctx.require(a[0] < b[0] if twin != 'desc' else a[0] > b[0], 'symbolic keys: ascending order')
    for gk, gv in got:
        ctx.require(Or(*[And(gk == keys[i], V.eq(gv, vals[i])) for i in distinct]), 'symbolic keys: pair was inserted')
    for r in rem:
        ctx.require(r, 'value occupies the whole leaf remainder')
    if twin == 'desc' and len(got) < 2:
        ctx.require(False, 'twin')


h_symkeys.symkeys = True
h_symkeys.max_paths = 20000


def h_keyrange(ctx, width, form='int'):
    """keys over width+2 bits, signed: accepted exactly when 0 <= key < 2^width, and then stored under that key"""
    k = ctx.sint('k', width + 2)
    v = ctx.uint('v', 8)
    hm = HashMap(width).with_uint_values(8)
    ctx.known('negative_key_aliased', k < 0)
    try:
        if form == 'int':
            hm.set_int_key(k, v)
        elif form == 'set':
            hm.set(k, v)
        else:
            hm = HashMap(width, key_serializer=lambda x: x).with_uint_values(8)
            hm.set(k, v)
        raised = False
    except DictError:
        raised = True
    fits = And(k >= 0, k < (1 << width))
    ctx.require(Iff(raised, Not(fits)), 'key rejected exactly when it does not fit the width')
    if not raised:
        res = HashMap.parse(hm.serialize().begin_parse(), width, None, lambda s: s.load_uint(8))
        got = list(res.items())
        ctx.require(len(got) == 1, 'single key: one pair')
        ctx.require(And(got[0][0] == k, got[0][1] == v), 'single key: stored under its own key')


def h_addr_key_range(ctx, hash_len=32, base=None):
    """an Address used as a key names a 267-bit key only if its workchain fits int8 and its account id is 32 bytes: otherwise it
    is rejected (any error), never stored under the key of another address.  The workchain is symbolic over 11 bits."""
    from pytoniq_core.boc import Address
    # the workchain: any int8 (base None), or a value outside int8: base + 7 symbolic bits (128..255, 256..383, -256..-129 ...)
    wc = ctx.sint('wc', 8) if base is None else base + ctx.uint('wcl', 7)
    acc = ctx.bytes_('acc', hash_len)
    v = ctx.uint('v', 8)
    other_v = ctx.uint('w', 8)
    hm = HashMap(267).with_uint_values(8)
    fits = And(wc >= -128, wc <= 127) if hash_len == 32 else False
    try:
        a = Address((wc, acc))
        hm.set(a, v)
        raised = False
    except Exception:
        raised = True
    ctx.require(Iff(raised, Not(fits)) if hash_len == 32 else raised, 'address key: rejected exactly when it names no 267-bit key')
    if not raised and hash_len == 32:
        want = (0b100 << 264) + ((wc & 0xff) << 256) + uint_of_bits(bits_of_bytes(acc))
        res = HashMap.parse(hm.serialize().begin_parse(), 267, None, lambda s: s.load_uint(8))
        got = list(res.items())
        ctx.require(len(got) == 1 and And(got[0][0] == want, got[0][1] == v), 'address key: stored under addr_std$10 none wc:int8 account:bits256')


def h_odd_keys(ctx, width, key, addr=False):
    """key forms that name no key of the declared width: bit strings with a sign, an Address in a map that is not 267 bits wide.
    They are rejected (any error) - the map stays as it was"""
    from pytoniq_core.boc import Address
    v, w = ctx.uint('v', 8), ctx.uint('w', 8)
    hm = HashMap(width).with_uint_values(8).set_int_key(1, w)
    k = Address((ctx.sint('wc', 8), ctx.bytes_('acc', 32))) if addr else key
    try:
        hm.set(k, v)
        raised = False
    except Exception:
        raised = True
    ctx.require(raised, 'a key form that names no key of the declared width is rejected')
    got = list(HashMap.parse(hm.serialize().begin_parse(), width, None, lambda s: s.load_uint(8)).items())
    ctx.require(len(got) == 1 and And(got[0][0] == 1, got[0][1] == w), 'a rejected key leaves the map as it was')


h_odd_keys.symkeys = True


def h_keyforms(ctx, form):
    """the documented key forms with symbolic contents"""
    v = ctx.uint('v', 16)
    if form == 'bytes':
        kb = ctx.bytes_('k', 2)
        hm = HashMap(16).with_uint_values(16).set(kb, v)
        want, width = uint_of_bits(bits_of_bytes(kb)), 16
    elif form == 'str':
        ks = ctx.bitstr('k', 7)
        hm = HashMap(7).with_uint_values(16).set(ks, v)
        want, width = uint_of_bits(ks), 7
    elif form == 'address':
        a = Address((ctx.sint('wc', 8), ctx.bytes_('acc', 32)))
        hm = HashMap(267).with_uint_values(16).set(a, v)
        want, width = uint_of_bits(enc_addr_std(a.wc, a.hash_part)), 267
    elif form.startswith('hashed'):
        name = ctx.ascii('name', 3)
        lead = int(form[6:] or 0)          # forced number of leading zero bits of the digest (each magnitude class is a path)
        hbits = bits_of_bytes(sha256(name.encode()))
        ctx.assume(hbits[:lead + 1] == '0' * lead + '1')
        hm = HashMap(256).with_uint_values(16).set(name, v, hash_key=True)
        want, width = uint_of_bits(bits_of_bytes(sha256(name.encode()))), 256
    res = HashMap.parse(hm.serialize().begin_parse(), width, None, lambda s: s.load_uint(16))
    got = list(res.items())
    ctx.require(len(got) == 1, 'key form: one pair')
    ctx.require(And(got[0][0] == want, got[0][1] == v), 'key form: stored under the documented key')


h_keyforms.symkeys = True
h_keyrange.symkeys = True
h_addr_key_range.symkeys = True


# ------------------------------------------------------------------------------- instances
def instances(tier, seed):
    rnd = random.Random(seed)
    routes = ['parse', 'load_dict', 'preload_dict', 'from_cell', 'load_hashmap', 'load_dict_after_ref', 'preload_dict_after_ref']
    vks = ['u8', 'u64', 'i16', 'coins', 'addr', 'cell']
    n = 0
    # process-wide state shows up everywhere once present: the scenarios that pin it down run first
    yield 'h_two_maps', dict(width=4, keys1=[1, 7, 12], keys2=[2, 3, 8])
    yield 'h_two_maps', dict(width=8, keys1=[255], keys2=[0, 255])
    yield 'h_addr_key_range', dict()
    for width, key in ((8, '-101'), (8, '-1'), (3, '-11'), (8, '-00000001'), (16, '-0')):
        if key != '-0':
            yield 'h_odd_keys', dict(width=width, key=key)
    for width in (8, 256, 266):
        yield 'h_odd_keys', dict(width=width, key=None, addr=True)
    for base in (128, 256, -256, -384, 1 << 20):
        yield 'h_addr_key_range', dict(base=base)
    yield 'h_addr_key_range', dict(hash_len=31)
    # wide keys at the extremes: all zeros with all ones, neighbours across the longest carry
    for w in (48, 49, 53, 64, 80, 256, 267, 1023):
        for ks in ([0, (1 << w) - 1], [(1 << (w - 1)) - 1, 1 << (w - 1)], [0, 1, (1 << w) - 1, (1 << w) - 2]):
            yield 'h_roundtrip', dict(width=w, keys=ks, vk='u8', route='parse')
    for keys, steps in (([5, 200], [['int', 77]]), ([5, 200], [['set', 77]]), ([5, 200], [['int', 5]]), ([1], [['int', 0], ['int', 255], ['del', 1]]),
                        ([3, 4, 9], [['del', 4], ['int', 4]]), ([3, 4], [['del', 3], ['del', 4], ['int', 8]]), ([7], [['vals'], ['int', 6], ['set', 7]])):
        yield 'h_incremental', dict(width=8, keys=keys, steps=steps)
    for width in (1, 2, 3):
        for ks in key_sets(width):
            for o in orders(ks, n):
                n += 1
                yield 'h_roundtrip', dict(width=width, keys=list(o), vk=vks[n % 2], route=routes[n % len(routes)])
    yield from _rest(tier, seed, rnd, routes, vks)
    # the bulk family last, so that a wall-clock cap never cuts the scenarios above
    w4 = list(key_sets(4))
    w4 = rnd.sample(w4, 150 if tier == 'quick' else 5000)
    for ks in w4:
        n += 1
        o = orders(ks, n)[n % len(orders(ks, n))]
        yield 'h_roundtrip', dict(width=4, keys=list(o), vk='u8', route=routes[n % len(routes)])


def _rest(tier, seed, rnd, routes, vks):
    # every value kind and route on a fixed awkward key set; duplicate writes; the key forms
    for vk in vks:
        for route in routes:
            yield 'h_roundtrip', dict(width=5, keys=[31, 0, 16, 17, 3] if vk != 'coins' else [31, 16], vk=vk, route=route)
    yield 'h_roundtrip', dict(width=3, keys=[5, 2, 5, 7, 2], vk='u8')
    for form in ('set', 'str'):
        yield 'h_roundtrip', dict(width=6, keys=[0, 63, 32, 33, 1], key_form=form)
    yield 'h_roundtrip', dict(width=16, keys=[0, 65535, 256, 257, 258], key_form='bytes')
    for width in (32, 64, 256, 267, 1023):
        top = (1 << width) - 1
        yield 'h_roundtrip', dict(width=width, keys=[0, top, top - 1, 1 << (width - 1), 1, 1 << (width // 2)], vk='u8')
    for width in (1, 2, 8, 267, 1023):
        yield 'h_empty', dict(width=width)

    for form in ('bytes', 'str', 'address', 'hashed1', 'hashed9'):
        yield 'h_keyforms', dict(form=form)
    for width in ((1, 2, 3, 4) if tier == 'quick' else (1, 2, 3, 4, 5, 6, 7)):
        for form in ('int', 'set', 'ser'):
            yield 'h_keyrange', dict(width=width, form=form)
    # symbolic keys
    for width in ((1, 2, 3, 4) if tier == 'quick' else (1, 2, 3, 4, 5, 6)):
        yield 'h_symkeys', dict(width=width, nk=2)
    for width in ((2,) if tier == 'quick' else (2, 3, 4)):
        yield 'h_symkeys', dict(width=width, nk=3)
    wins = [(16, 4, 12), (32, 4, 0), (64, 4, 30), (267, 4, 100)] if tier == 'quick' else \
        [(w, 6, p) for w in (16, 32, 64, 256, 267, 900) for p in (0, (w - 6) // 2, w - 6)]
    for (w, win, pos) in wins:
        for fill in (('zeros', 'diff') if tier == 'quick' else ('zeros', 'ones', 'alt', 'diff')):
            if w >= 1000 and not (pos == w - win and fill in ('zeros', 'ones')):
                # a label of about a thousand bits that is not a run of equal bits does not fit a cell (2 + 10 + n label bits): such
                # key sets are not representable in TON either; only long runs of equal bits with the window at the end are
                continue
            yield 'h_symkeys', dict(width=w, nk=2, win=win, pos=pos, fill=fill)


def twins(tier, seed):
    yield 'h_roundtrip', dict(width=3, keys=[1, 6, 2], twin='shift')
    yield 'h_symkeys', dict(width=3, nk=2, twin='desc')


INSTANCE_TIMEOUT = {'quick': 200, 'thorough': 1200}
BOUNDS = {
    'key sets': 'every non-empty key set of widths 1..3 in up to three insertion orders; width 4: 150 seeded sets (quick) / 5 000 seeded sets of the 65 535 (thorough)',
    'values': 'all values of uint8/uint64/int16/coins(9 bit, two length classes)/addr_std/inline cells, symbolic',
    'symbolic keys': '2 fully symbolic keys for widths 1..4 (thorough 1..6), 3 for width 2 (thorough 2..4); wide keys (16..900; a non-uniform label of about a thousand bits does not fit a cell) symbolic in a 4-bit (thorough 6-bit) window, other bits concrete patterns',
    'key range': 'signed keys over width+2 bits for widths 1..4 (thorough 1..7) through set_int_key, set and a key serializer',
}
BOUNDS['incremental use'] = 'one map object serialised, changed (set_int_key, set, removal through the public mapping, value-kind helper) and serialised again: 7 scenarios, values symbolic'
OUTSIDE = ['maps with more than 16 keys', 'fully symbolic wide keys', 'user-supplied serializers other than the built-in value kinds']
STUBS = ['hashlib.sha256: injective uninterpreted function']
ASSUMPTIONS = ['TL-B primitive encodings of specs/enc.py', 'bitarray model (validated per path witness)']
