"""C20 - ADNL channel crypto is symmetric between peers (channel clauses; see DESIGN.md section 7 for the excluded ones).

Engine A on AdnlChannel.__init__/encrypt/decrypt, create_aes_ctr_sipher_from_key_n_data, get_key_aes_id with the
primitives replaced by environment stubs with a stated contract: X25519 (uninterpreted, ECDH commutativity), AES-CTR
(data XOR an uninterpreted key stream of (key, iv)), SHA-256 (injective uninterpreted function).  Symbolic: both peers'
secrets and 32-byte ids (all three orderings are solver-decided forks), the plaintext.
"""
import sys
import types

import z3

from sx.api import *
from sx import core as C

import pytoniq_core.crypto.ciphers        # noqa
CI = sys.modules['pytoniq_core.crypto.ciphers']

PROPERTY = 'C20'
MAXLEN = 64


class _Key:
    def __init__(self, b):
        self.b = b

    def encode(self):
        return self.b


def _uf(name, arg, out_len):
    a = C.SymBytes.lift(arg)
    f = z3.Function(f'{name}_{len(a)}', z3.BitVecSort(8 * len(a)), z3.BitVecSort(8 * out_len))
    return C.mkbytes(C.Bits.of_bv(f(a.bits.bv())))


class _AesStub:
    MODE_CTR = 6
    calls = []

    class _Cipher:
        def __init__(self, key, iv):
            self.key, self.iv, self.off = key, iv, 0

        def _ks(self, n):
            ks = _uf('aes_ctr_keystream', self.key + self.iv, MAXLEN)
            if self.off + n > MAXLEN:
                raise C.Unmodelled('key stream longer than the modelled 64 bytes')
            r = ks[self.off:self.off + n]
            self.off += n
            return r

        def encrypt(self, data):
            if len(data) == 0:
                return b''
            return C.SymBytes.lift(data) ^ self._ks(len(data))

        decrypt = encrypt

    @classmethod
    def new(cls, key, mode, initial_value=None, nonce=None, **kw):
        if mode != cls.MODE_CTR or nonce != b'':
            raise C.Unmodelled('AES mode other than CTR with an empty nonce')
        cls.calls.append((key, initial_value))
        return cls._Cipher(key, initial_value)


def _peers(ctx, names):
    """key holders for the named peers; symbolic mode: plain holders of symbolic secrets with the stubs installed"""
    if ctx.symbolic:
        sec = {p: ctx.bytes_(f'secret_{p}', 32) for p in names}
        pub = {p: _uf('x25519_pub', sec[p], 32) for p in names}

        def scalar_mult(priv, pub_):
            return _uf('x25519_dh', C.SymBytes.lift(priv) + C.SymBytes.lift(pub_), 32)
        for i, p in enumerate(names):          # contract: ECDH commutes
            for q in names[i + 1:]:
                ctx.assume(scalar_mult(sec[p], pub[q]) == scalar_mult(sec[q], pub[p]))
        saved = (CI.x25519, CI.AES)
        CI.x25519 = types.SimpleNamespace(scalar_mult=scalar_mult)
        CI.AES = _AesStub
        _AesStub.calls = []
        cl = {p: types.SimpleNamespace(x25519_private=_Key(sec[p]), x25519_public=_Key(pub[p])) for p in names}
        sv = {p: types.SimpleNamespace(x25519_public=_Key(pub[p])) for p in names}
        return cl, sv, saved
    # concrete replay: the real primitives; AES.new is only observed (arguments recorded, call passed through)
    saved = (CI.x25519, CI.AES)
    real_aes = CI.AES
    _AesStub.calls = []

    def new(key, mode, **kw):
        _AesStub.calls.append((key, kw.get('initial_value')))
        return real_aes.new(key, mode, **kw)
    CI.AES = types.SimpleNamespace(MODE_CTR=real_aes.MODE_CTR, new=new)
    cl = {p: CI.Client(ctx.bytes_(f'secret_{p}', 32) or bytes(32)) for p in names}
    sv = {p: CI.Server(p, 1, cl[p].ed25519_public.encode()) for p in names}
    return cl, sv, saved


def _exchange(ctx, ch_x, ch_y, m, n, twin, same_ids, tag):
    for (snd, rcv, d) in ((ch_x, ch_y, tag), (ch_y, ch_x, tag[::-1])):
        _AesStub.calls = []
        pkt = snd.encrypt(m)
        ctx.require(len(pkt) == 64 + n, f'{d[0]}->{d[-1]}: packet length'.replace(d[0] + '->' + d[-1], 'X->Y'))
        key_id, checksum, ct = pkt[:32], pkt[32:64], pkt[64:]
        ctx.require(checksum == sha256(m), 'packet carries the SHA-256 of the plaintext')
        ctx.require(key_id == rcv.server_aes_key_id, 'packet carries the key identifier the peer expects')
        ctx.require(key_id == sha256(b'\xd4\xad\xbc-' + snd.enc_key), 'key identifier = sha256(magic + key)')
        back = rcv.decrypt(ct, checksum)
        if twin == 'wrongdir':
            back = snd.decrypt(ct, checksum) if n else b'x'
            ctx.assume(Not(same_ids))
        ctx.require(back == m, 'the peer decrypts exactly the plaintext')
        ctx.observe('packet length', len(pkt))
        cs = sha256(m)
        for (key, iv) in _AesStub.calls:
            ok = Or(*[And(key == k[0:16] + cs[16:32], iv == cs[0:4] + k[20:32]) for k in (snd.enc_key, snd.dec_key)])
            ctx.require(ok, 'AES key = key[0:16]+hash[16:32], iv = hash[0:4]+key[20:32]')
    ctx.require(And(ch_x.enc_key == ch_y.dec_key, ch_x.dec_key == ch_y.enc_key), 'directional keys are mirrored between the peers')


def h_channel(ctx, n, twin=None, order=None, third=False):
    """A <-> B; with third=True a further key pair C then opens a channel to the same peer B (no state may be carried
    over from the first channel), and A <-> B must still work afterwards"""
    m = ctx.bytes_('plain', n)
    names = ['a', 'b'] + (['c'] if third else [])
    ids = {p: ctx.bytes_(f'id_{p}', 32) for p in names}
    if order == 'eq':
        ctx.assume(ids['a'] == ids['b'])
    cl, sv, saved = _peers(ctx, names)
    try:
        ch_a = CI.AdnlChannel(cl['a'], sv['b'], ids['a'], ids['b'])          # A's side: local id A, peer id B
        ch_b = CI.AdnlChannel(cl['b'], sv['a'], ids['b'], ids['a'])          # B's side
        _exchange(ctx, ch_a, ch_b, m, n, twin, ids['a'] == ids['b'], 'AB')
        if third:
            ch_c = CI.AdnlChannel(cl['c'], sv['b'], ids['c'], ids['b'])
            ch_b2 = CI.AdnlChannel(cl['b'], sv['c'], ids['b'], ids['c'])
            _exchange(ctx, ch_c, ch_b2, m, n, twin, ids['c'] == ids['b'], 'CB')
            ch_a2 = CI.AdnlChannel(cl['a'], sv['b'], ids['a'], ids['b'])
            _exchange(ctx, ch_a2, ch_b, m, n, twin, ids['a'] == ids['b'], 'AB')
    finally:
        CI.x25519, CI.AES = saved


h_channel.symkeys = True


def h_contract(ctx):
    """validation of the environment model on fixed vectors against the real primitives (not the deciding step)"""
    import hashlib
    a, b = CI.Client(hashlib.sha256(b'a').digest()), CI.Client(hashlib.sha256(b'b').digest())
    s1 = CI.get_shared_key(a.x25519_private.encode(), b.x25519_public.encode())
    s2 = CI.get_shared_key(b.x25519_private.encode(), a.x25519_public.encode())
    ctx.require(s1 == s2 and len(s1) == 32, 'contract: ECDH commutes')
    srv = CI.Server('h', 1, b.ed25519_public.encode())
    ctx.require(srv.x25519_public.encode() == b.x25519_public.encode(), 'contract: Ed25519->Curve25519 public key conversion agrees with the private one')
    key, iv = hashlib.sha256(b'k').digest(), hashlib.sha256(b'iv').digest()[:16]
    data = bytes(range(50))
    ct = CI.aes_ctr_encrypt(CI.create_aes_ctr_cipher(key, iv), data)
    ctx.require(CI.aes_ctr_decrypt(CI.create_aes_ctr_cipher(key, iv), ct) == data, 'contract: AES-CTR is an involution under equal key and iv')
    ks = CI.aes_ctr_encrypt(CI.create_aes_ctr_cipher(key, iv), bytes(50))
    ctx.require(bytes(x ^ y for x, y in zip(data, ks)) == ct, 'contract: AES-CTR is XOR with a key stream of (key, iv)')
    from pytoniq_core.crypto.signature import verify_sign, sign_message
    sig = a.sign(b'message')
    ctx.require(verify_sign(a.ed25519_public.encode(), b'message', sig), 'contract vector: signature verifies under the matching key')
    ctx.require(not verify_sign(b.ed25519_public.encode(), b'message', sig), 'contract vector: fails under another key')
    ctx.require(not verify_sign(a.ed25519_public.encode(), b'messagf', sig), 'contract vector: fails for another message')


def instances(tier, seed):
    yield 'h_contract', dict()
    for n in ((0, 1, 16, 33) if tier == 'quick' else (0, 1, 2, 15, 16, 17, 31, 32, 33, 63, 64)):
        yield 'h_channel', dict(n=n)
    yield 'h_channel', dict(n=5, order='eq')
    yield 'h_channel', dict(n=7, third=True)


def twins(tier, seed):
    yield 'h_channel', dict(n=4, twin='wrongdir')


BOUNDS = {'plaintext': 'lengths 0, 1, 16, 33 (quick) / 0..64 at block boundaries (thorough), contents symbolic',
          'peers': 'both secrets and both 32-byte ids symbolic: the three id orderings are solver-decided forks; one scenario with a third key pair opening a channel to the same peer'}
OUTSIDE = ['the signature and mnemonic clauses of the property (libsodium Ed25519, PBKDF2): not encodable, see DESIGN.md section 7; '
           'h_contract exercises them on fixed vectors as validation only',
           'X25519, Ed25519->Curve25519 conversion, AES themselves', 'plaintexts longer than 64 bytes']
STUBS = ['x25519.scalar_mult: uninterpreted function with dh(a, pub(b)) = dh(b, pub(a))',
         'AES-CTR: data XOR KS(key, iv) with KS uninterpreted', 'hashlib.sha256: injective uninterpreted function',
         'Client/Server key objects: plain holders of the symbolic secrets (nacl constructors bypassed)']
ASSUMPTIONS = ['stub contracts, validated on fixed vectors in h_contract against the real primitives']
