"""C20 - ADNL channel crypto is symmetric between peers (channel clauses; see DESIGN.md section 7 for the excluded ones).

Engine A on AdnlChannel.__init__/encrypt/decrypt, create_aes_ctr_sipher_from_key_n_data, get_key_aes_id with the
primitives replaced by environment stubs with a stated contract: X25519 (uninterpreted, ECDH commutativity), AES-CTR
(data XOR an uninterpreted key stream of (key, iv)), SHA-256 (injective uninterpreted function).  Symbolic: both peers'
secrets and 32-byte ids (all three orderings are solver-decided forks), the plaintext.
"""
import sys
import types

import z3

from sx.api import *
from sx import core as C

import pytoniq_core.crypto.ciphers        # noqa
CI = sys.modules['pytoniq_core.crypto.ciphers']

PROPERTY = 'C20'
MAXLEN = 64


class _Key:
    def __init__(self, b):
        self.b = b

    def encode(self):
        return self.b


def _uf(name, arg, out_len):
    a = C.SymBytes.lift(arg)
    f = z3.Function(f'{name}_{len(a)}', z3.BitVecSort(8 * len(a)), z3.BitVecSort(8 * out_len))
    return C.mkbytes(C.Bits.of_bv(f(a.bits.bv())))


class _AesStub:
    MODE_CTR = 6
    calls = []

    class _Cipher:
        def __init__(self, key, iv):
            self.key, self.iv, self.off = key, iv, 0

        def _ks(self, n):
            ks = _uf('aes_ctr_keystream', self.key + self.iv, MAXLEN)
            if self.off + n > MAXLEN:
                raise C.Unmodelled('key stream longer than the modelled 64 bytes')
            r = ks[self.off:self.off + n]
            self.off += n
            return r

        def encrypt(self, data):
            if len(data) == 0:
                return b''
            return C.SymBytes.lift(data) ^ self._ks(len(data))

        decrypt = encrypt

    @classmethod
    def new(cls, key, mode, initial_value=None, nonce=None, **kw):
        if mode != cls.MODE_CTR or nonce != b'':
            raise C.Unmodelled('AES mode other than CTR with an empty nonce')
        cls.calls.append((key, initial_value))
        return cls._Cipher(key, initial_value)


def h_channel(ctx, n, twin=None, order=None):
    m = ctx.bytes_('plain', n)
    ida, idb = ctx.bytes_('id_a', 32), ctx.bytes_('id_b', 32)
    if order == 'eq':
        ctx.assume(ida == idb)
    if ctx.symbolic:
        a, b = ctx.bytes_('secret_a', 32), ctx.bytes_('secret_b', 32)
        pub_a, pub_b = _uf('x25519_pub', a, 32), _uf('x25519_pub', b, 32)

        def scalar_mult(priv, pub):
            return _uf('x25519_dh', C.SymBytes.lift(priv) + C.SymBytes.lift(pub), 32)
        # contract: ECDH commutes
        ctx.assume(scalar_mult(a, pub_b) == scalar_mult(b, pub_a))
        saved = (CI.x25519, CI.AES)
        CI.x25519 = types.SimpleNamespace(scalar_mult=scalar_mult)
        CI.AES = _AesStub
        _AesStub.calls = []
        cl_a = types.SimpleNamespace(x25519_private=_Key(a), x25519_public=_Key(pub_a))
        cl_b = types.SimpleNamespace(x25519_private=_Key(b), x25519_public=_Key(pub_b))
        sv_a, sv_b = types.SimpleNamespace(x25519_public=_Key(pub_a)), types.SimpleNamespace(x25519_public=_Key(pub_b))
    else:
        # concrete replay: the real primitives; AES.new is only observed (arguments recorded, call passed through)
        saved = (CI.x25519, CI.AES)
        real_aes = CI.AES
        _AesStub.calls = []

        def new(key, mode, **kw):
            _AesStub.calls.append((key, kw.get('initial_value')))
            return real_aes.new(key, mode, **kw)
        CI.AES = types.SimpleNamespace(MODE_CTR=real_aes.MODE_CTR, new=new)
        cl_a, cl_b = CI.Client(ctx.bytes_('secret_a', 32) or bytes(32)), CI.Client(ctx.bytes_('secret_b', 32) or bytes(32))
        sv_a = CI.Server('a', 1, cl_a.ed25519_public.encode())
        sv_b = CI.Server('b', 2, cl_b.ed25519_public.encode())
    try:
        ch_a = CI.AdnlChannel(cl_a, sv_b, ida, idb)          # A's side: local id A, peer id B
        ch_b = CI.AdnlChannel(cl_b, sv_a, idb, ida)          # B's side
        for (snd, rcv, tag) in ((ch_a, ch_b, 'A->B'), (ch_b, ch_a, 'B->A')):
            pkt = snd.encrypt(m)
            ctx.require(len(pkt) == 64 + n, f'{tag}: packet length')
            key_id, checksum, ct = pkt[:32], pkt[32:64], pkt[64:]
            ctx.require(checksum == sha256(m), f'{tag}: packet carries the SHA-256 of the plaintext')
            ctx.require(key_id == rcv.server_aes_key_id, f'{tag}: packet carries the key identifier the peer expects')
            ctx.require(key_id == sha256(b'\xd4\xad\xbc-' + snd.enc_key), f'{tag}: key identifier = sha256(magic + key)')
            back = rcv.decrypt(ct, checksum)
            if twin == 'wrongdir':
                back = snd.decrypt(ct, checksum) if n else b'x'
                ctx.assume(Not(ida == idb))
            ctx.require(back == m, f'{tag}: the peer decrypts exactly the plaintext')
            ctx.observe('packet length', len(pkt))
        ctx.require(And(ch_a.enc_key == ch_b.dec_key, ch_a.dec_key == ch_b.enc_key), 'directional keys are mirrored between the peers')
        if True:
            cs = sha256(m)
            for (key, iv) in _AesStub.calls:
                ok = Or(*[And(key == k[0:16] + cs[16:32], iv == cs[0:4] + k[20:32]) for k in (ch_a.enc_key, ch_a.dec_key)])
                ctx.require(ok, 'AES key = key[0:16]+hash[16:32], iv = hash[0:4]+key[20:32]')
    finally:
        if saved:
            CI.x25519, CI.AES = saved


def h_contract(ctx):
    """validation of the environment model on fixed vectors against the real primitives (not the deciding step)"""
    import hashlib
    a, b = CI.Client(hashlib.sha256(b'a').digest()), CI.Client(hashlib.sha256(b'b').digest())
    s1 = CI.get_shared_key(a.x25519_private.encode(), b.x25519_public.encode())
    s2 = CI.get_shared_key(b.x25519_private.encode(), a.x25519_public.encode())
    ctx.require(s1 == s2 and len(s1) == 32, 'contract: ECDH commutes')
    srv = CI.Server('h', 1, b.ed25519_public.encode())
    ctx.require(srv.x25519_public.encode() == b.x25519_public.encode(), 'contract: Ed25519->Curve25519 public key conversion agrees with the private one')
    key, iv = hashlib.sha256(b'k').digest(), hashlib.sha256(b'iv').digest()[:16]
    data = bytes(range(50))
    ct = CI.aes_ctr_encrypt(CI.create_aes_ctr_cipher(key, iv), data)
    ctx.require(CI.aes_ctr_decrypt(CI.create_aes_ctr_cipher(key, iv), ct) == data, 'contract: AES-CTR is an involution under equal key and iv')
    ks = CI.aes_ctr_encrypt(CI.create_aes_ctr_cipher(key, iv), bytes(50))
    ctx.require(bytes(x ^ y for x, y in zip(data, ks)) == ct, 'contract: AES-CTR is XOR with a key stream of (key, iv)')
    from pytoniq_core.crypto.signature import verify_sign, sign_message
    sig = a.sign(b'message')
    ctx.require(verify_sign(a.ed25519_public.encode(), b'message', sig), 'contract vector: signature verifies under the matching key')
    ctx.require(not verify_sign(b.ed25519_public.encode(), b'message', sig), 'contract vector: fails under another key')
    ctx.require(not verify_sign(a.ed25519_public.encode(), b'messagf', sig), 'contract vector: fails for another message')


def instances(tier, seed):
    yield 'h_contract', dict()
    for n in ((0, 1, 16, 33) if tier == 'quick' else (0, 1, 2, 15, 16, 17, 31, 32, 33, 63, 64)):
        yield 'h_channel', dict(n=n)
    yield 'h_channel', dict(n=5, order='eq')


def twins(tier, seed):
    yield 'h_channel', dict(n=4, twin='wrongdir')


BOUNDS = {'plaintext': 'lengths 0, 1, 16, 33 (quick) / 0..64 at block boundaries (thorough), contents symbolic',
          'peers': 'both secrets and both 32-byte ids symbolic: the three id orderings are solver-decided forks'}
OUTSIDE = ['the signature and mnemonic clauses of the property (libsodium Ed25519, PBKDF2): not encodable, see DESIGN.md section 7; '
           'h_contract exercises them on fixed vectors as validation only',
           'X25519, Ed25519->Curve25519 conversion, AES themselves', 'plaintexts longer than 64 bytes']
STUBS = ['x25519.scalar_mult: uninterpreted function with dh(a, pub(b)) = dh(b, pub(a))',
         'AES-CTR: data XOR KS(key, iv) with KS uninterpreted', 'hashlib.sha256: injective uninterpreted function',
         'Client/Server key objects: plain holders of the symbolic secrets (nacl constructors bypassed)']
ASSUMPTIONS = ['stub contracts, validated on fixed vectors in h_contract against the real primitives']
