"""C20 - ADNL channel crypto is symmetric between peers (channel clauses; see DESIGN.md section 7 for the excluded ones).

Engine A on AdnlChannel.__init__/encrypt/decrypt, create_aes_ctr_sipher_from_key_n_data, get_key_aes_id with the
primitives replaced by environment stubs with a stated contract: X25519 (uninterpreted, ECDH commutativity), AES-CTR
(data XOR an uninterpreted key stream of (key, iv)), SHA-256 (injective uninterpreted function).  Symbolic: both peers'
secrets and 32-byte ids (all three orderings are solver-decided forks), the plaintext.
"""
import sys
import types

import z3

from sx.api import *
from sx import core as C

import pytoniq_core.crypto.ciphers        # noqa
CI = sys.modules['pytoniq_core.crypto.ciphers']

PROPERTY = 'C20'
MAXLEN = 64


class _Key:
    def __init__(self, b):
        self.b = b

    def encode(self):
        return self.b


def _uf(name, arg, out_len):
    a = C.SymBytes.lift(arg)
    f = z3.Function(f'{name}_{len(a)}', z3.BitVecSort(8 * len(a)), z3.BitVecSort(8 * out_len))
    return C.mkbytes(C.Bits.of_bv(f(a.bits.bv())))


class _AesStub:
    MODE_CTR = 6
    calls = []

    class _Cipher:
        def __init__(self, key, iv):
            self.key, self.iv, self.off = key, iv, 0

        def _ks(self, n):
            ks = _uf('aes_ctr_keystream', self.key + self.iv, MAXLEN)
            if self.off + n > MAXLEN:
                raise C.Unmodelled('key stream longer than the modelled 64 bytes')
            r = ks[self.off:self.off + n]
            self.off += n
            return r

        def encrypt(self, data):
            if len(data) == 0:
                return b''
            return C.SymBytes.lift(data) ^ self._ks(len(data))

        decrypt = encrypt

    @classmethod
    def new(cls, key, mode, initial_value=None, nonce=None, **kw):
        if mode != cls.MODE_CTR or nonce != b'':
            raise C.Unmodelled('AES mode other than CTR with an empty nonce')
        cls.calls.append((key, initial_value))
        return cls._Cipher(key, initial_value)


def _peers(ctx, names):
    """key holders for the named peers; symbolic mode: plain holders of symbolic secrets with the stubs installed"""
    if ctx.symbolic:
        sec = {p: ctx.bytes_(f'secret_{p}', 32) for p in names}
        pub = {p: _uf('x25519_pub', sec[p], 32) for p in names}

        def scalar_mult(priv, pub_):
            return _uf('x25519_dh', C.SymBytes.lift(priv) + C.SymBytes.lift(pub_), 32)
        for i, p in enumerate(names):          # contract: ECDH commutes
            for q in names[i + 1:]:
                ctx.assume(scalar_mult(sec[p], pub[q]) == scalar_mult(sec[q], pub[p]))
        saved = (CI.x25519, CI.AES)
        CI.x25519 = types.SimpleNamespace(scalar_mult=scalar_mult)
        CI.AES = _AesStub
        _AesStub.calls = []
        # real Client/Server instances (whatever methods and class-level state the library gives them), with the nacl key
        # objects replaced by holders of the symbolic secrets; all peers are reached under one (host, port): network
        # coordinates identify no key
        cl, sv = {}, {}
        for p in names:
            c = CI.Client.__new__(CI.Client)
            c.ed25519_private, c.ed25519_public = _Key(_uf('ed_priv', sec[p], 32)), _Key(_uf('ed_pub', sec[p], 32))
            c.x25519_private, c.x25519_public = _Key(sec[p]), _Key(pub[p])
            cl[p] = c
            v = CI.Server.__new__(CI.Server)
            v.host, v.port = '127.0.0.1', 1
            v.ed25519_public, v.x25519_public = _Key(_uf('ed_pub', sec[p], 32)), _Key(pub[p])
            sv[p] = v
        return cl, sv, saved
    # concrete replay: the real primitives; AES.new is only observed (arguments recorded, call passed through)
    saved = (CI.x25519, CI.AES)
    real_aes = CI.AES
    _AesStub.calls = []

    def new(key, mode, **kw):
        _AesStub.calls.append((key, kw.get('initial_value')))
        return real_aes.new(key, mode, **kw)
    CI.AES = types.SimpleNamespace(MODE_CTR=real_aes.MODE_CTR, new=new)
    cl = {p: CI.Client(ctx.bytes_(f'secret_{p}', 32) or bytes(32)) for p in names}
    sv = {p: CI.Server('127.0.0.1', 1, cl[p].ed25519_public.encode()) for p in names}
    return cl, sv, saved


def _exchange(ctx, ch_x, ch_y, m, n, twin, same_ids, tag, resend=True):
    for (snd, rcv, d) in ((ch_x, ch_y, tag), (ch_y, ch_x, tag[::-1])):
        _AesStub.calls = []
        pkt = snd.encrypt(m)
        ctx.require(len(pkt) == 64 + n, f'{d[0]}->{d[-1]}: packet length'.replace(d[0] + '->' + d[-1], 'X->Y'))
        key_id, checksum, ct = pkt[:32], pkt[32:64], pkt[64:]
        ctx.require(checksum == sha256(m), 'packet carries the SHA-256 of the plaintext')
        ctx.require(key_id == rcv.server_aes_key_id, 'packet carries the key identifier the peer expects')
        ctx.require(key_id == sha256(b'\xd4\xad\xbc-' + snd.enc_key), 'key identifier = sha256(magic + key)')
        # the same plaintext sent again (a resend whose first copy was lost): the packet is the same and still decrypts;
        # a packet delivered twice decrypts twice
        if resend:
            pkt2 = snd.encrypt(m)
            ctx.require(pkt2 == pkt, 'sending the same plaintext again gives the same packet')
            back = rcv.decrypt(pkt2[64:], pkt2[32:64])
            ctx.require(back == m, 'the peer decrypts a resent packet')
        back = rcv.decrypt(ct, checksum)
        if twin == 'wrongdir':
            back = snd.decrypt(ct, checksum) if n else b'x'
            ctx.assume(Not(same_ids))
        ctx.require(back == m, 'the peer decrypts exactly the plaintext')
        ctx.observe('packet length', len(pkt))
        cs = sha256(m)
        for (key, iv) in _AesStub.calls:
            ok = Or(*[And(key == k[0:16] + cs[16:32], iv == cs[0:4] + k[20:32]) for k in (snd.enc_key, snd.dec_key)])
            ctx.require(ok, 'AES key = key[0:16]+hash[16:32], iv = hash[0:4]+key[20:32]')
    ctx.require(And(ch_x.enc_key == ch_y.dec_key, ch_x.dec_key == ch_y.enc_key), 'directional keys are mirrored between the peers')


def h_channel(ctx, n, twin=None, order=None, third=False):
    """A <-> B; with third=True a further key pair C then opens a channel to the same peer B (no state may be carried
    over from the first channel), and A <-> B must still work afterwards"""
    m = ctx.bytes_('plain', n)
    names = ['a', 'b'] + (['c'] if third else [])
    ids = {p: ctx.bytes_(f'id_{p}', 32) for p in names}
    if order == 'eq':
        ctx.assume(ids['a'] == ids['b'])
    cl, sv, saved = _peers(ctx, names)
    try:
        ch_a = CI.AdnlChannel(cl['a'], sv['b'], ids['a'], ids['b'])          # A's side: local id A, peer id B
        ch_b = CI.AdnlChannel(cl['b'], sv['a'], ids['b'], ids['a'])          # B's side
        _exchange(ctx, ch_a, ch_b, m, n, twin, ids['a'] == ids['b'], 'AB', resend=not third)
        if third:
            ch_c = CI.AdnlChannel(cl['c'], sv['b'], ids['c'], ids['b'])
            ch_b2 = CI.AdnlChannel(cl['b'], sv['c'], ids['b'], ids['c'])
            _exchange(ctx, ch_c, ch_b2, m, n, twin, ids['c'] == ids['b'], 'CB', resend=False)
            ch_a2 = CI.AdnlChannel(cl['a'], sv['b'], ids['a'], ids['b'])
            _exchange(ctx, ch_a2, ch_b, m, n, twin, ids['a'] == ids['b'], 'AB', resend=False)
    finally:
        CI.x25519, CI.AES = saved


h_channel.symkeys = True


# ------------------------------------------------------------------------------- mnemonics and key derivation (glue)
def _keys_module():
    import pytoniq_core.crypto.keys        # noqa
    return sys.modules['pytoniq_core.crypto.keys']


def h_mnemonic(ctx, pos, base, password=None, twin=None):
    """generator and validator agree: the word list drawn by mnemonic_new() is accepted by mnemonic_is_valid(), and key
    derivation from it is a function of the words alone.  Symbolic: the random draw of the word at position `pos`
    (its index ranges over the window base..base+3 of the 2048-word list; the other 23 draws are concrete); PBKDF2 and the
    Ed25519 key generation are uninterpreted functions (symbolic mode), so the seed test that ends the generator's loop is
    a free boolean and only the first candidate is followed.  The concrete replay uses the real primitives and picks the 23
    filler words so that the real seed test passes."""
    import hashlib as _hl
    import hmac as _hmac
    KM = _keys_module()
    n_words = len(KM.words)
    lo2 = ctx.uint('draw', 2)
    saved = (KM.os, KM.hashlib, KM.crypto_sign_seed_keypair)

    def idx_bytes(i):
        return bytes([(i >> 8) & 0xff, i & 0xff]) + bytes(9)

    def filler(t):
        return [(37 * j + 11 + 101 * t + (t >> 3) * 7 * j) % n_words for j in range(24)]

    t = 0
    if not ctx.symbolic:
        # real primitives: search the filler for which the real seed test passes with the drawn word in place
        want = base + lo2
        while True:
            idxs = filler(t)
            idxs[pos] = want
            ent = _hmac.new(' '.join(KM.words[i] for i in idxs).encode(), bytes(0), _hl.sha512).digest()
            if _hl.pbkdf2_hmac('sha512', ent, b'TON seed version', max(1, KM.PBKDF_ITERATIONS // 256))[0] == 0:
                break
            t += 1
            assert t < 20000
    draws = []
    for j, i in enumerate(filler(t)):
        if j == pos:
            b = base + lo2
            draws.append(bytes([(base >> 8) & 0xff]) + (C.SymBytes.lift(bytes([base & 0xfc])) | C.SymBytes.lift(b'\x00')
                         if False else _low_byte(ctx, base, lo2)) + bytes(9))
        else:
            draws.append(idx_bytes(i))
    calls = [0]

    def urandom(n):
        k = calls[0]
        calls[0] += 1
        if k >= len(draws):
            ctx.assume(False)               # only the first candidate of the generator's loop is followed (stated bound)
        d = draws[k]
        return d[:n] if n <= len(d) else d + bytes(n - len(d))

    def pbkdf2_stub(name, password_, salt, iterations, dklen=None):
        return C.uf_bytes(f'pbkdf2_{name}_{iterations}_' + bytes(salt).hex(), password_, 64)

    def keypair_stub(seed):
        return C.uf_bytes('ed25519_pk_of_seed', seed, 32), C.uf_bytes('ed25519_sk_of_seed', seed, 64)
    KM.os = types.SimpleNamespace(urandom=urandom)
    if ctx.symbolic:
        KM.hashlib = types.SimpleNamespace(pbkdf2_hmac=pbkdf2_stub, sha512=_hl.sha512, sha256=_hl.sha256)
        KM.crypto_sign_seed_keypair = keypair_stub
    try:
        m = KM.mnemonic_new() if password is None else KM.mnemonic_new(24, password)
        ctx.require(isinstance(m, list) and len(m) == 24 and all(w in KM.words for w in m), 'mnemonic_new returns 24 words of the list')
        ctx.require(_is(KM.mnemonic_is_valid(m), twin is None), 'a generated mnemonic is valid')
        ctx.require(_is(KM.mnemonic_is_valid(list(m)), True), 'validity is a function of the words (asked again, on a copy)')
        ctx.require(_is(KM.mnemonic_is_valid(m[:23]), False), 'a mnemonic of 23 words is not valid')
        k1 = KM.mnemonic_to_wallet_key(m)
        k2 = KM.mnemonic_to_wallet_key(list(m))
        ctx.require(And(k1[0] == k2[0], k1[1] == k2[1]), 'key derivation from a mnemonic is deterministic')
        p1 = KM.mnemonic_to_private_key(m)
        ent = _hmac.new(' '.join(m).encode(), bytes(0), _hl.sha512).digest()
        seed = KM.hashlib.pbkdf2_hmac('sha512', ent, b'TON default seed', 100000)
        pk, sk = KM.crypto_sign_seed_keypair(seed[:32])
        ctx.require(And(p1[0] == pk, p1[1] == sk), 'private key = keypair(PBKDF2-HMAC-SHA512(HMAC-SHA512(words), "TON default seed", 100000)[:32])')
        pk2, sk2 = KM.crypto_sign_seed_keypair(sk[:32])
        ctx.require(And(k1[0] == pk2, k1[1] == sk2), 'wallet key = keypair(private key[:32])')
    finally:
        KM.os, KM.hashlib, KM.crypto_sign_seed_keypair = saved


def _is(r, want):
    """r is the boolean `want` (a symbolic boolean is compared by value)"""
    if isinstance(r, C.SymBool):
        return r if want else Not(r)
    return r is want


def _low_byte(ctx, base, lo2):
    """one byte: the six high bits of base's low byte, then the two drawn bits"""
    if isinstance(lo2, int):
        return bytes([(base & 0xfc) | lo2])
    return C.mkbytes(C.Bits.of_bv(z3.Concat(z3.BitVecVal((base & 0xff) >> 2, 6), z3.Extract(1, 0, C._lift(lo2)))))


# ------------------------------------------------------------------------------- signatures (glue)
def h_sign(ctx, n, alter, twin=None):
    """sign_message / Client.sign / verify_sign over an idealised Ed25519: for every key pair and message there is one
    valid signature F(pk, m), F injective in its arguments (the unforgeability idealisation); the wrappers must produce
    it, accept it under the matching key, and reject when the message, the key or the signature is another one"""
    import pytoniq_core.crypto.signature      # noqa
    SG = sys.modules['pytoniq_core.crypto.signature']
    sk_seed = ctx.bytes_('seed', 32)
    m = ctx.bytes_('msg', n)
    if ctx.symbolic:
        def pub(seed):
            return _uf('ed25519_pub', seed, 32)

        def F(pk, msg):
            # the one valid signature of msg under pk: injective in (pk, msg) across all lengths - built from the engine's
            # collision-free hash stub so that the injectivity axioms are instantiated by the engine
            return sha256(b'ed25519 signature R' + pk + msg) + sha256(b'ed25519 signature S' + pk + msg)

        class BadSig(Exception):
            pass

        class VK:
            def __init__(self, key, *a, **k):
                self.key = key

            def verify(self, smessage, signature=None, *a, **k):
                if signature is None:
                    signature, smessage = smessage[:64], smessage[64:]
                if len(signature) != 64:
                    raise ValueError('The signature must be exactly 64 bytes long')
                if not (C.SymBytes.lift(signature) == F(self.key, smessage)):
                    raise BadSig('Signature was forged or corrupt')
                return smessage

            def encode(self):
                return self.key

        def crypto_sign(message, sk):
            # libsodium secret key = seed || public key
            return F(sk[32:], message) + message

        class SKey:
            def __init__(self, seed, *a, **k):
                self.seed = seed
                self.verify_key = VK(pub(seed))
                self._signing_key = C.SymBytes.lift(seed) + pub(seed)

            def encode(self):
                return self.seed

            def sign(self, message, *a, **k):
                return F(self.verify_key.key, message) + message
        class SM:
            """nacl.signing.SignedMessage (a bytes subclass in the real package)"""
            @classmethod
            def _from_parts(cls, signature, message, combined):
                o = cls()
                o.signature, o.message, o.combined = signature, message, combined
                return o
        def crypto_sign_open(signed, pk_):
            # libsodium: the first 64 bytes are the signature of the rest
            if len(signed) < 64 or not (C.SymBytes.lift(signed[:64]) == F(pk_, signed[64:])):
                raise BadSig('Signature was forged or corrupt')
            return signed[64:]
        MISSING = object()
        names = dict(VerifyKey=VK, exc=types.SimpleNamespace(BadSignatureError=BadSig), crypto_sign=crypto_sign, SignedMessage=SM,
                     crypto_sign_open=crypto_sign_open)
        saved = ({k: getattr(SG, k, MISSING) for k in names}, CI.ed25519Private, MISSING)
        for k, v in names.items():
            if k != 'crypto_sign_open' or hasattr(SG, k):        # (only what the module actually uses is replaced)
                setattr(SG, k, v)
        CI.ed25519Private = lambda seed=None, *a, **k: SKey(seed if seed is not None else a[0])
        key = SKey(sk_seed)
    else:
        from nacl.signing import SigningKey
        saved = None
        key = SigningKey(sk_seed)
    try:
        pk = key.verify_key.encode()
        sig = SG.sign_message(m, key._signing_key)
        ctx.require(len(sig) == 64, 'signature is 64 bytes')
        c = CI.Client.__new__(CI.Client)
        c.ed25519_private, c.ed25519_public = key, key.verify_key
        ctx.require(c.sign(m) == sig, 'Client.sign and sign_message give the same signature')
        ctx.require(SG.verify_sign(pk, m, sig) is (True if twin is None else False), 'a signature verifies under the matching public key')
        if alter == 'msg' and n:
            d = ctx.bytes_('delta', n)
            ctx.assume(Not(d == bytes(n)))
            ctx.require(SG.verify_sign(pk, m ^ d if ctx.symbolic else bytes(a ^ b for a, b in zip(m, d)), sig) is False, 'fails for any other message')
        elif alter == 'msglen':
            ctx.require(SG.verify_sign(pk, m + b'\x00', sig) is False, 'fails for a longer message')
        elif alter == 'shift' and n >= 2:
            # the boundary between signature and message moved: the first k bytes of the message are handed over as the end of
            # the signature.  Any error counts as a refusal
            for k in (1, n - 1):
                try:
                    r = SG.verify_sign(pk, m[k:], sig + m[:k])
                except Exception:
                    r = False
                ctx.require(r is False, 'fails when the boundary between signature and message is moved')
        elif alter == 'sig':
            d = ctx.bytes_('delta', 64)
            ctx.assume(Not(d == bytes(64)))
            ctx.require(SG.verify_sign(pk, m, sig ^ d if ctx.symbolic else bytes(a ^ b for a, b in zip(sig, d))) is False, 'fails for any altered signature')
        elif alter == 'key':
            other = ctx.bytes_('seed2', 32)
            if ctx.symbolic:
                pk2 = key.__class__(other).verify_key.encode()
                ctx.assume(Not(pk2 == pk))
            else:
                from nacl.signing import SigningKey
                pk2 = SigningKey(other).verify_key.encode()
                ctx.assume(pk2 != pk)
            ctx.require(SG.verify_sign(pk2, m, sig) is False, 'fails under any other key')
    finally:
        if saved:
            for k, v in saved[0].items():
                if v is saved[2]:
                    if hasattr(SG, k) and k != 'crypto_sign_open':
                        delattr(SG, k)
                else:
                    setattr(SG, k, v)
            CI.ed25519Private = saved[1]


def h_contract(ctx):
    """validation of the environment model on fixed vectors against the real primitives (not the deciding step)"""
    import hashlib
    a, b = CI.Client(hashlib.sha256(b'a').digest()), CI.Client(hashlib.sha256(b'b').digest())
    s1 = CI.get_shared_key(a.x25519_private.encode(), b.x25519_public.encode())
    s2 = CI.get_shared_key(b.x25519_private.encode(), a.x25519_public.encode())
    ctx.require(s1 == s2 and len(s1) == 32, 'contract: ECDH commutes')
    srv = CI.Server('h', 1, b.ed25519_public.encode())
    ctx.require(srv.x25519_public.encode() == b.x25519_public.encode(), 'contract: Ed25519->Curve25519 public key conversion agrees with the private one')
    key, iv = hashlib.sha256(b'k').digest(), hashlib.sha256(b'iv').digest()[:16]
    data = bytes(range(50))
    ct = CI.aes_ctr_encrypt(CI.create_aes_ctr_cipher(key, iv), data)
    ctx.require(CI.aes_ctr_decrypt(CI.create_aes_ctr_cipher(key, iv), ct) == data, 'contract: AES-CTR is an involution under equal key and iv')
    ks = CI.aes_ctr_encrypt(CI.create_aes_ctr_cipher(key, iv), bytes(50))
    ctx.require(bytes(x ^ y for x, y in zip(data, ks)) == ct, 'contract: AES-CTR is XOR with a key stream of (key, iv)')
    from pytoniq_core.crypto.signature import verify_sign, sign_message
    sig = a.sign(b'message')
    ctx.require(verify_sign(a.ed25519_public.encode(), b'message', sig), 'contract vector: signature verifies under the matching key')
    ctx.require(not verify_sign(b.ed25519_public.encode(), b'message', sig), 'contract vector: fails under another key')
    ctx.require(not verify_sign(a.ed25519_public.encode(), b'messagf', sig), 'contract vector: fails for another message')


def instances(tier, seed):
    yield 'h_contract', dict()
    for n in ((0, 1, 16, 33) if tier == 'quick' else (0, 1, 2, 15, 16, 17, 31, 32, 33, 63, 64)):
        yield 'h_channel', dict(n=n)
    yield 'h_channel', dict(n=5, order='eq')
    yield 'h_channel', dict(n=3, third=True)


    for n in (0, 1, 32, 45):
        for alter in ('msg', 'msglen', 'sig', 'key', 'shift'):
            if alter != 'shift' or n >= 2:
                yield 'h_sign', dict(n=n, alter=alter)
    positions = (0, 1, 11, 23) if tier == 'quick' else range(24)
    for pos in positions:
        for base in (0, 2044, 1020) if tier == 'quick' else (0, 4, 1020, 1024, 2040, 2044):
            yield 'h_mnemonic', dict(pos=pos, base=base)


def twins(tier, seed):
    yield 'h_channel', dict(n=4, twin='wrongdir')
    yield 'h_sign', dict(n=3, alter='msg', twin='genuine rejected')
    yield 'h_mnemonic', dict(pos=5, base=8, twin='generated invalid')


BOUNDS = {'plaintext': 'lengths 0, 1, 16, 33 (quick) / 0..64 at block boundaries (thorough), contents symbolic',
          'peers': 'both secrets and both 32-byte ids symbolic: the three id orderings are solver-decided forks; one scenario with a third key pair opening a channel to the same peer'}
BOUNDS['signatures'] = 'messages of 0, 1, 32, 45 symbolic bytes, seed symbolic; alterations: any other message of the same length, a longer message, any altered signature, any other key'
BOUNDS['mnemonics'] = ('the random draw of one word symbolic over a 4-index window (indices 0..3, 1020..1023, 2044..2047; thorough also 4..7, 1024..1027, 2040..2043) at word '
                       'positions 0, 1, 11, 23 (thorough: all 24), the other 23 draws concrete; only the first candidate of the generator loop is followed')
OUTSIDE = ['Ed25519, X25519, the Ed25519->Curve25519 conversion, AES, PBKDF2 and HMAC themselves (environment stubs; contracts validated on fixed vectors in h_contract, '
           'counterexamples replayed with the real primitives)', 'plaintexts longer than 64 bytes', 'mnemonics with a password (the library ignores it: TODO in the source)',
           'later candidates of the mnemonic generator loop']
STUBS = ['x25519.scalar_mult: uninterpreted function with dh(a, pub(b)) = dh(b, pub(a))',
         'AES-CTR: data XOR KS(key, iv) with KS uninterpreted', 'hashlib.sha256: injective uninterpreted function',
         'Ed25519 (h_sign): VerifyKey.verify / crypto_sign / SigningKey.sign over one valid signature F(pk, msg) per key and message, F injective (built from the injective hash stub)',
         'h_mnemonic: os.urandom = the symbolic draw; hashlib.pbkdf2_hmac and crypto_sign_seed_keypair = uninterpreted functions (real ones in the replay); math.pow on small integers exact',
         'Client/Server: real instances whose nacl key objects are replaced by holders of the symbolic secrets (nacl constructors bypassed); every peer under the same (host, port)']
ASSUMPTIONS = ['stub contracts, validated on fixed vectors in h_contract against the real primitives']
