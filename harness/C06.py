"""C06 - typed Builder stores and Slice loads are mutually inverse and bit-exact."""
from sx.api import *
from pytoniq_core.boc import Builder, Cell, Slice

PROPERTY = 'C06'


def h_uint(ctx, width):
    x = ctx.uint('x', width)
    c = Builder().store_uint(x, width).end_cell()
    ctx.require(c.bits.to01() == bits_of_uint(x, width), 'uint: bits are the big-endian encoding')
    s = c.begin_parse()
    p = s.preload_uint(width)
    y = s.load_uint(width)
    ctx.observe('y', y)
    ctx.require(y == x, 'uint: load returns the stored value')
    ctx.require(p == y, 'uint: preload equals load')
    ctx.require(s.remaining_bits == 0, 'uint: nothing left unread')


def instances(tier, seed):
    for w in (1, 2, 7, 8, 9, 64, 256, 257):
        yield 'h_uint', dict(width=w)
