"""C06 - typed Builder stores and Slice loads are mutually inverse and bit-exact.

Engine A on the real Builder / Slice / Address code.  Values are symbolic over the full width of their type;
widths, sequence shapes, string lengths and address forms are enumerated (one instance each).
"""
import itertools

from sx.api import *
from specs.enc import *
from pytoniq_core.boc import Builder, Cell, Slice, Address, ExternalAddress

PROPERTY = 'C06'


# ------------------------------------------------------------------------------- type alphabet
class T:
    refs = 0

    def eq(self, a, b):
        return a == b


class TUInt(T):
    def __init__(self, w): self.w = w; self.name = f'u{w}'
    def make(self, ctx, n): return ctx.uint(n, self.w)
    def store(self, b, v): b.store_uint(v, self.w)
    def load(self, s): return s.load_uint(self.w)
    def preload(self, s): return s.preload_uint(self.w)
    def enc(self, v): return enc_uint(v, self.w)


class TInt(T):
    def __init__(self, w): self.w = w; self.name = f'i{w}'
    def make(self, ctx, n): return ctx.sint(n, self.w)
    def store(self, b, v): b.store_int(v, self.w)
    def load(self, s): return s.load_int(self.w)
    def preload(self, s): return s.preload_int(self.w)
    def enc(self, v): return enc_int(v, self.w)


class TVarUInt(T):
    def __init__(self, lb, vbits=None):
        self.lb = lb; self.vbits = vbits if vbits is not None else 8 * ((1 << lb) - 1); self.name = f'vu{lb}'
    def make(self, ctx, n): return ctx.uint(n, self.vbits)
    def store(self, b, v): b.store_var_uint(v, self.lb)
    def load(self, s): return s.load_var_uint(self.lb)
    def preload(self, s): return s.preload_var_uint(self.lb)
    def enc(self, v): return enc_var_uint(v, self.lb)


class TVarInt(T):
    def __init__(self, lb, vbits=None):
        self.lb = lb; self.vbits = vbits if vbits is not None else 8 * ((1 << lb) - 1); self.name = f'vi{lb}'
    def make(self, ctx, n): return ctx.sint(n, self.vbits)
    def store(self, b, v): b.store_var_int(v, self.lb)
    def load(self, s): return s.load_var_int(self.lb)
    def preload(self, s): return s.preload_var_int(self.lb)
    def enc(self, v): return enc_var_int(v, self.lb)


class TCoins(T):
    name = 'coins'
    def __init__(self, vbits=120): self.vbits = vbits
    def make(self, ctx, n): return ctx.uint(n, self.vbits)
    def store(self, b, v): b.store_coins(v)
    def load(self, s): return s.load_coins()
    def preload(self, s): return s.preload_coins()
    def enc(self, v): return enc_coins(v)


class TBit(T):
    name = 'bit'
    def make(self, ctx, n): return ctx.uint(n, 1)
    def store(self, b, v): b.store_bit(v)
    def load(self, s): return s.load_bit()
    def preload(self, s): return s.preload_bit()
    def enc(self, v): return enc_uint(v, 1)


class TBool(T):
    name = 'bool'
    def make(self, ctx, n): return ctx.boolean(n)
    def store(self, b, v): b.store_bool(v)
    def load(self, s): return s.load_bool()
    def preload(self, s): return s.preload_bool()
    def enc(self, v): return enc_uint(Ite(v, 1, 0), 1)
    def eq(self, a, b): return Iff(a, b)


class TBits(T):
    def __init__(self, n): self.n = n; self.name = f'bits{n}'
    def make(self, ctx, n): return ctx.bitstr(n, self.n)
    def store(self, b, v): b.store_bits(v)
    def load(self, s): return s.load_bits(self.n).to01()
    def preload(self, s): return s.preload_bits(self.n).to01()
    def enc(self, v): return v


class TBytes(T):
    def __init__(self, n): self.n = n; self.name = f'bytes{n}'
    def make(self, ctx, n): return ctx.bytes_(n, self.n)
    def store(self, b, v): b.store_bytes(v)
    def load(self, s): return s.load_bytes(self.n)
    def preload(self, s): return s.preload_bytes(self.n)
    def enc(self, v): return bits_of_bytes(v)


class TStr(T):
    def __init__(self, n): self.n = n; self.name = f'str{n}'
    def make(self, ctx, n): return ctx.ascii(n, self.n)
    def store(self, b, v): b.store_string(v)
    def load(self, s): return s.load_string(self.n) if self.n else ''
    def preload(self, s): return s.preload_string(self.n) if self.n else ''
    def enc(self, v): return bits_of_bytes(v.encode())


class TMaybeRef(T):
    def __init__(self, present, dict_=False):
        self.present = present; self.dict_ = dict_
        self.name = ('dict' if dict_ else 'mref') + str(int(present)); self.refs = int(present)
    def make(self, ctx, n):
        if not self.present:
            return None
        return Builder().store_bits(ctx.bitstr(n, 9)).end_cell()
    def store(self, b, v): b.store_dict(v) if self.dict_ else b.store_maybe_ref(v)
    def load(self, s): return s.load_maybe_ref()
    def preload(self, s): return s.preload_maybe_ref()
    def enc(self, v): return '1' if self.present else '0'
    def eq(self, a, b):
        if a is None or b is None:
            return a is None and b is None
        return And(a.bits.to01() == b.bits.to01(), a.hash == b.hash)


class TRef(T):
    name = 'ref'; refs = 1
    def make(self, ctx, n): return Builder().store_bits(ctx.bitstr(n, 5)).end_cell()
    def store(self, b, v): b.store_ref(v)
    def load(self, s): return s.load_ref()
    def preload(self, s): return s.preload_ref()
    def enc(self, v): return ''
    def eq(self, a, b): return And(a.bits.to01() == b.bits.to01(), a.hash == b.hash)


class TAddrNone(T):
    name = 'addr_none'
    def make(self, ctx, n): return None
    def store(self, b, v): b.store_address(v)
    def load(self, s): return s.load_address()
    def preload(self, s): return s.preload_address()
    def enc(self, v): return enc_addr_none()
    def eq(self, a, b): return a is None and b is None


class TAddrStd(T):
    def __init__(self, anycast_depth=0):
        self.d = anycast_depth; self.name = 'addr_std' + (f'_any{self.d}' if self.d else '')
    def make(self, ctx, n):
        a = Address((ctx.sint(n + '_wc', 8), ctx.bytes_(n + '_acc', 32)))
        if self.d:
            a.set_anycast(self.d, ctx.uint(n + '_pfx', self.d))
        return a
    def store(self, b, v): b.store_address(v)
    def load(self, s): return s.load_address()
    def preload(self, s): return s.preload_address()
    def enc(self, v):
        return enc_addr_std(v.wc, v.hash_part, (v.anycast.depth, v.anycast.rewrite_pfx) if v.anycast is not None else None)
    def eq(self, a, b):
        if not isinstance(a, Address) or not isinstance(b, Address):
            return False
        same = And(a.wc == b.wc, a.hash_part == b.hash_part)
        if (a.anycast is None) != (b.anycast is None):
            return False
        if a.anycast is not None:
            same = And(same, a.anycast.depth == b.anycast.depth, a.anycast.rewrite_pfx == b.anycast.rewrite_pfx)
        return same


class TAddrExt(T):
    def __init__(self, n): self.n = n; self.name = f'addr_ext{n}'
    def make(self, ctx, n): return ExternalAddress(ctx.uint(n, self.n) if self.n else 0, self.n)
    def store(self, b, v): b.store_address(v)
    def load(self, s): return s.load_address()
    def preload(self, s): return s.preload_address()
    def enc(self, v): return enc_addr_extern(v.external_address, v.len)
    def eq(self, a, b):
        if not isinstance(a, ExternalAddress) or not isinstance(b, ExternalAddress):
            return False
        return And(a.external_address == b.external_address, a.len == b.len)


def parse_type(t):
    import re
    m = re.fullmatch(r'([a-z_]+?)(\d*)', t)
    k, n = m.group(1), int(m.group(2)) if m.group(2) else None
    if k == 'u': return TUInt(n)
    if k == 'i': return TInt(n)
    if k == 'vu': return TVarUInt(n)
    if k == 'vi': return TVarInt(n)
    if k == 'svu': return TVarUInt(4, 24)         # short value range: cheap member for sequences
    if k == 'svi': return TVarInt(4, 24)
    if k == 'coins': return TCoins(n or 120)
    if k == 'bit': return TBit()
    if k == 'bool': return TBool()
    if k == 'bits': return TBits(n)
    if k == 'bytes': return TBytes(n)
    if k == 'str': return TStr(n)
    if k == 'mref': return TMaybeRef(bool(n))
    if k == 'dict': return TMaybeRef(bool(n), True)
    if k == 'ref': return TRef()
    if k == 'addr_none': return TAddrNone()
    if k == 'addr_std': return TAddrStd()
    if k == 'addr_any': return TAddrStd(n)
    if k == 'addr_ext': return TAddrExt(n)
    raise ValueError(t)


# ------------------------------------------------------------------------------- the generic harness
def h_seq(ctx, types, twin=None):
    """store a sequence of typed values, compare the cell with the TL-B encoding, load them back in order"""
    ts = [parse_type(t) for t in types]
    vals = [t.make(ctx, f'v{i}') for i, t in enumerate(ts)]
    b = Builder()
    for t, v in zip(ts, vals):
        t.store(b, v)                      # a value that fits its type must never be rejected
    c = b.end_cell()
    # the builder goes on being used after the cell was taken from it (one more reference, one more bit): what is loaded back
    # from the cell is still exactly what had been stored
    if len(b.refs) < 4:
        b.store_ref(Builder().store_uint(1, 1).end_cell())
    if len(b.bits) < 1000:
        b.store_uint(1, 1)
    want = cat_bits(*[t.enc(v) for t, v in zip(ts, vals)])
    if twin == 'plus1':      # vacuity twin: a deliberately wrong oracle must be refuted
        want = cat_bits(ts[0].enc(vals[0] ^ 1), *[t.enc(v) for t, v in zip(ts[1:], vals[1:])])
    ctx.require(c.bits.to01() == want, 'cell bits are the TL-B encoding')
    ctx.require(len(c.refs) == sum(t.refs for t in ts), 'reference count')
    s = c.begin_parse()
    for i, (t, v) in enumerate(zip(ts, vals)):
        p = t.preload(s)
        r = t.load(s)
        kind = t.name.rstrip('0123456789')
        ctx.require(t.eq(r, v), f'{kind}: load returns the stored value')
        ctx.require(t.eq(p, r), f'{kind}: preload equals load')
        if isinstance(r, (int, bool, str, bytes)) or is_symbolic(r):
            ctx.observe(f'r{i}', r)
    ctx.require(s.remaining_bits == 0, 'nothing left unread (bits)')
    ctx.require(s.remaining_refs == 0, 'nothing left unread (refs)')


def h_addr_same_account(ctx, d1, d2, d3):
    """three internal addresses of the SAME account in one cell, with different anycast parts (depth 0 = none): each is loaded
    back with its own anycast, a peek agrees with the read, and what was returned earlier does not change when the later ones
    are loaded (address objects shared between loads would show here)"""
    wc, acc = ctx.sint('wc', 8), ctx.bytes_('acc', 32)
    T_ = TAddrStd()
    vals = []
    for i, d in enumerate((d1, d2, d3)):
        a = Address((wc, acc))
        if d:
            a.set_anycast(d, ctx.uint(f'pfx{i}', d))
        vals.append(a)
    b = Builder()
    for v in vals:
        b.store_address(v)
    c = b.end_cell()
    ctx.require(c.bits.to01() == cat_bits(*[T_.enc(v) for v in vals]), 'same account, different anycast: cell bits are the TL-B encodings')
    s = c.begin_parse()
    got = []
    for v in vals:
        p = s.preload_address()
        g = s.load_address()
        ctx.require(T_.eq(p, v), 'same account, different anycast: peek returns the stored address')
        ctx.require(T_.eq(g, v), 'same account, different anycast: load returns the stored address')
        got.append(g)
    for g, v in zip(got, vals):
        ctx.require(T_.eq(g, v), 'same account, different anycast: earlier results are unchanged by later loads')
    # and in another cell, read afterwards
    s2 = Builder().store_address(vals[1]).end_cell().begin_parse()
    ctx.require(T_.eq(s2.load_address(), vals[1]), 'same account, different anycast: a later cell')
    ctx.require(T_.eq(got[0], vals[0]), 'same account, different anycast: earlier results are unchanged by later loads')


def h_overrange(ctx, kind, width):
    """values over width+2 bits: the store raises exactly when the value does not fit (both directions)"""
    x = ctx.sint('x', width + 2)
    fits = And(x >= 0, x < (1 << width)) if kind == 'u' else And(x >= -(1 << (width - 1)), x < (1 << (width - 1)))
    b = Builder()
    try:
        (b.store_uint if kind == 'u' else b.store_int)(x, width)
        raised = False
    except (OverflowError, ValueError) as ex:
        raised = True
    ctx.require(Iff(raised, Not(fits)), f'{kind}{width}: rejected exactly when out of range')
    if not raised:
        s = b.end_cell().begin_parse()
        y = s.load_uint(width) if kind == 'u' else s.load_int(width)
        ctx.require(y == x, f'{kind}{width}: round trip')


def snake_chunks(n, first_avail_bytes):
    """spec: fill the current cell with whole bytes, continue in a chain of references of up to 127 bytes"""
    out = [min(n, first_avail_bytes)]
    n -= out[0]
    while n > 0:
        out.append(min(n, 127))
        n -= out[-1]
    return out


def h_snake(ctx, n, prefix_bytes=0, sym_window=None, as_string=False, prefix_bits=0, utf=None):
    """snake-chained byte strings: round trip and chain layout; contents symbolic (entirely, or a window of
    `sym_window` bytes at the chunk boundary with concrete filler for the very long ones)"""
    if utf:
        # text with multi-byte characters (per-character UTF-8 lengths `utf`): a cell border may fall inside a character
        data = ctx.unitext('data', utf)
        n = sum(utf)
        as_string = True
    elif sym_window is None or sym_window >= n:
        data = ctx.ascii('data', n) if as_string else ctx.bytes_('data', n)
    else:
        # window centred on the first cell boundary
        first = 127 - prefix_bytes
        lo = max(0, min(first - sym_window // 2, n - sym_window))
        filler = bytes((i * 37 + 11) & 0x7f for i in range(n))
        data = filler[:lo] + ctx.bytes_('data', sym_window) + filler[lo + sym_window:]
    pre = ctx.bytes_('pre', prefix_bytes)
    b = Builder().store_bytes(pre)
    xbits = ctx.bitstr('prebits', prefix_bits) if prefix_bits else ''      # a non-aligned prefix: less than a byte of room may be left
    if prefix_bits:
        b.store_bits(xbits)
    if as_string:
        b.store_snake_string(data)
        raw = data.encode() if n else b''
    else:
        b.store_snake_bytes(data)
        raw = data
    c = b.end_cell()
    chunks = snake_chunks(n, (1023 - 8 * prefix_bytes - prefix_bits) // 8)
    cur, off = c, 0
    for i, k in enumerate(chunks):
        want = cat_bits(bits_of_bytes(pre) if i == 0 else '', xbits if i == 0 else '', bits_of_bytes(raw[off: off + k]))
        ctx.require(cur.bits.to01() == want, f'snake: cell {min(i, 3)} holds the next bytes')
        off += k
        last = i == len(chunks) - 1
        ctx.require(len(cur.refs) == (0 if last else 1), 'snake: one continuation reference unless last')
        if not last:
            cur = cur.refs[0]
    s = c.begin_parse()
    ctx.require(s.load_bytes(prefix_bytes) == pre if prefix_bytes else True, 'snake: prefix read back')
    if prefix_bits:
        ctx.require(s.load_bits(prefix_bits).to01() == xbits, 'snake: prefix read back')
    got = s.load_snake_string() if as_string else s.load_snake_bytes()
    ctx.require(got == data, 'snake: round trip')
    ctx.require(And(s.remaining_bits == 0, s.remaining_refs == 0), 'snake: nothing left')


def h_addr_foreign(ctx, form):
    """addresses encoded by the specification (not by the library) are read back by load_ and preload_address"""
    if form.startswith('any'):
        d = int(form[3:])
        wc, acc, pfx = ctx.sint('wc', 8), ctx.bytes_('acc', 32), ctx.uint('pfx', d)
        bits = enc_addr_std(wc, acc, (d, pfx))
    elif form == 'std':
        wc, acc = ctx.sint('wc', 8), ctx.bytes_('acc', 32)
        bits = enc_addr_std(wc, acc)
    tail = ctx.bitstr('tail', 5)
    s = Builder().store_bits(bits).store_bits(tail).end_cell().begin_parse()
    p = s.preload_address()
    a = s.load_address()
    ok = And(a.wc == wc, a.hash_part == acc)
    ctx.require(ok, f'foreign {form[:3]}: workchain and account')
    if form.startswith('any'):
        ctx.require(a.anycast is not None and And(a.anycast.depth == d, a.anycast.rewrite_pfx == pfx), 'foreign any: anycast')
    ctx.require(And(p.wc == a.wc, p.hash_part == a.hash_part), f'foreign {form[:3]}: preload equals load')
    ctx.require(s.bits.to01() == tail, f'foreign {form[:3]}: consumed exactly the address')


# ------------------------------------------------------------------------------- instances
QUICK_W = [1, 2, 3, 7, 8, 9, 15, 16, 17, 31, 32, 33, 63, 64, 65, 127, 128, 255, 256, 257]
SEQ_ALPHABET = ['u1', 'u7', 'i8', 'u64', 'i257', 'svu', 'svi', 'coins24', 'bit', 'bool', 'bits3', 'bytes2', 'str3',
                'mref1', 'dict0', 'ref', 'addr_none', 'addr_std', 'addr_ext9']


def instances(tier, seed):
    widths = QUICK_W if tier == 'quick' else list(range(1, 258))
    for w in widths:
        if w <= 256:
            yield 'h_seq', dict(types=[f'u{w}'])
        yield 'h_seq', dict(types=[f'i{w}'])
    for w in ([1, 8, 64, 256] if tier == 'quick' else [1, 2, 7, 8, 9, 63, 64, 65, 255, 256]):
        yield 'h_overrange', dict(kind='u', width=w)
        yield 'h_overrange', dict(kind='i', width=w + (w == 256))
    # variable-length integers over the whole range of each length-field size
    for lb in ((2, 3, 4) if tier == 'quick' else (2, 3, 4, 5)):
        yield 'h_seq', dict(types=[f'vu{lb}'])
        yield 'h_seq', dict(types=[f'vi{lb}'])
    yield 'h_seq', dict(types=['coins'])
    for t in ('bit', 'bool', 'bits1', 'bits9', 'bits1023', 'bytes1', 'bytes32', 'bytes127', 'str1', 'str127', 'mref0',
              'mref1', 'dict0', 'dict1', 'ref', 'addr_none', 'addr_std'):
        yield 'h_seq', dict(types=[t])
    for n in ((0, 5, 64) if tier == 'quick' else range(0, 128)):
        yield 'h_seq', dict(types=[f'str{n}'] if n else ['u3', 'str0'])
    for n in ((0, 1, 8, 255, 256, 511) if tier == 'quick' else (0, 1, 2, 7, 8, 9, 63, 64, 255, 256, 257, 510, 511)):
        yield 'h_seq', dict(types=[f'addr_ext{n}'])
    for d in ((1, 5, 30) if tier == 'quick' else range(1, 31)):
        yield 'h_seq', dict(types=[f'addr_any{d}'])
        yield 'h_addr_foreign', dict(form=f'any{d}')
    yield 'h_addr_foreign', dict(form='std')
    # interleavings at non-aligned positions
    pairs = list(itertools.product(SEQ_ALPHABET, repeat=2))
    if tier == 'quick':
        import random
        rnd = random.Random(seed)
        pairs = [p for i, p in enumerate(pairs) if i % 4 == seed % 4] + rnd.sample(pairs, 20)
    for p in pairs:
        yield 'h_seq', dict(types=list(p))
    if tier == 'thorough':
        import random
        rnd = random.Random(seed + 1)
        trip = list(itertools.product(SEQ_ALPHABET, repeat=3))
        for p in rnd.sample(trip, 900):
            if sum(parse_type(t).refs for t in p) <= 4:
                yield 'h_seq', dict(types=list(p))
    for ds in ((5, 0, 3), (0, 7, 0), (0, 0, 30), (1, 1, 0), (30, 0, 30)):
        yield 'h_addr_same_account', dict(d1=ds[0], d2=ds[1], d3=ds[2])
    # snake strings around the cell-capacity boundaries
    for n in ((0, 1, 126, 127, 128, 254, 255) if tier == 'quick' else (0, 1, 2, 126, 127, 128, 129, 253, 254, 255, 256, 381, 382, 1000)):
        yield 'h_snake', dict(n=n)
        if n:
            yield 'h_snake', dict(n=n, prefix_bytes=3)
    yield 'h_snake', dict(n=130, as_string=True)
    # the head cell is (almost) full when the snake string is stored: room for one byte, for none, for a few bits only
    for pb, xb in ((126, 0), (127, 0), (126, 7), (127, 4), (127, 7), (125, 9)):
        for n in (1, 2, 130):
            yield 'h_snake', dict(n=n, prefix_bytes=pb, prefix_bits=xb)
    yield 'h_snake', dict(n=3, prefix_bytes=127, as_string=True)
    for utf, pb in (([2] * 70, 0), ([3] * 50, 0), ([1] + [2] * 70, 0), ([2] * 5, 120), ([3, 3, 3], 124), ([2] * 130, 0)):
        yield 'h_snake', dict(n=0, utf=utf, prefix_bytes=pb)
    if tier == 'thorough':
        yield 'h_snake', dict(n=127 * 40, sym_window=16)


def twins(tier, seed):
    yield 'h_seq', dict(types=['u8'], twin='plus1')
    yield 'h_seq', dict(types=['i257', 'u3'], twin='plus1')
    yield 'h_seq', dict(types=['vu4'], twin='plus1')


INSTANCE_TIMEOUT = {'quick': 120, 'thorough': 1500}
BOUNDS = {
    'integers': 'every value of the width; widths: quick = boundary set, thorough = 1..257',
    'variable-length integers': 'every value representable with the length field: 2,3,4 bits (quick), 2..5 bits (thorough)',
    'sequences': 'all pairs (quick: a seeded quarter + 20) and 900 seeded triples (thorough) over ' + ' '.join(SEQ_ALPHABET),
    'strings': 'ASCII, lengths 0..127 (quick: 0,5,64,1,127)',
    'snake': 'lengths around 127/254/381 bytes, fully symbolic; 5080 bytes with a 16-byte symbolic window (thorough)',
    'addresses': 'addr_none; addr_extern len 0..511 boundaries; addr_std all (wc, account); anycast depth 1..30',
}
OUTSIDE = ['non-ASCII text', 'snake strings longer than 5080 bytes', 'addr_var (unsupported by the library, not in the property)',
           'sequences longer than 3 values']
STUBS = ['hashlib.sha256: injective uninterpreted function (only equality of cell hashes is used here)']
ASSUMPTIONS = ['TL-B primitive encodings as written in specs/enc.py', 'bitarray model (validated per path witness against the real bitarray)']
