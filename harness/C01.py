"""C01 - cell hash and depth are the TON representation hash and depth (ordinary cells).

Engine A on Cell.__init__/calculate_hashes/get_hash/get_depth/get_representation/calculate_representation_hash/
__eq__/__hash__ and the construction routes.  All data bits of the cell and of its children are symbolic; the bit
length, the number of references and the DAG shape are enumerated.  SHA-256 is an injective uninterpreted function,
so "equal to the TON hash" is decided as equality of pre-images.
"""
from sx.api import *
from specs.cellspec import *
from pytoniq_core.boc import Builder, Cell, Slice
from pytoniq_core.boc.tvm_bitarray import TvmBitarray
from bitarray import bitarray

PROPERTY = 'C01'


def _leaf(ctx, name, n=3):
    return SC(ORD, ctx.bitstr(name, n), [])


def _chain_spec(depth, seed_bits='1'):
    c = SC(ORD, '', [])
    for i in range(depth):
        c = SC(ORD, format(i & 7, '03b'), [c])
    return c


def build_shape(ctx, n, shape):
    """the cell under test (n symbolic data bits) with children according to `shape`"""
    bits = ctx.bitstr('x', n)
    if shape.startswith('leaves'):
        k = int(shape[6:])
        kids = [_leaf(ctx, f'k{i}', 3 + i) for i in range(k)]
    elif shape.startswith('chain'):
        d = int(shape[5:])
        kids = [_chain_spec(d - 1)] if d else []
    elif shape == 'shared2':
        k = _leaf(ctx, 'k0', 5)
        kids = [k, k]
    elif shape == 'shared4':
        k = _leaf(ctx, 'k0', 5)
        kids = [k, k, k, k]
    elif shape == 'diamond':
        bottom = _leaf(ctx, 'b', 4)
        l = SC(ORD, ctx.bitstr('l', 2), [bottom])
        r = SC(ORD, ctx.bitstr('r', 9), [bottom, _leaf(ctx, 'r2', 1)])
        kids = [l, r]
    elif shape == 'uneven':
        kids = [_chain_spec(3), _leaf(ctx, 'k1', 8), _chain_spec(1)]
    else:
        raise ValueError(shape)
    return SC(ORD, bits, kids)


def via_route(ctx, sc, route):
    """library cell for spec cell `sc` obtained through one of the construction routes"""
    if route == 'ctor':
        return to_real(sc, via='ctor')
    if route == 'builder':
        return to_real(sc, via='builder')
    base = to_real(sc, via='builder')
    if route == 'copy':
        return base.copy()
    if route == 'parse_to_cell':
        return base.begin_parse().to_cell()
    if route == 'to_builder':
        return base.to_builder().end_cell()
    if route == 'slice_consumed':
        # a bigger cell whose slice, after consuming j bits and one reference, is exactly sc
        j = min(5, 1023 - len(sc.bits))
        b = Builder().store_bits(ctx.bitstr('jp', j)) if j else Builder()
        if len(sc.bits):
            b.store_bits(sc.bits)
        kids = [to_real(r, via='builder') for r in sc.refs]
        extra = len(kids) < 4
        if extra:
            b.store_ref(Builder().store_uint(5, 3).end_cell())
        for k in kids:
            b.store_ref(k)
        s = b.end_cell().begin_parse()
        s.skip_bits(j)
        if extra:
            s.load_ref()
        return s.to_cell()
    if route == 'slice_then_read':
        # the cell is taken from a slice in the middle of parsing, and parsing goes on afterwards: the cell keeps
        # describing - and hashing - what the slice held at that moment
        j = min(5, 1023 - len(sc.bits))
        b = Builder().store_bits(ctx.bitstr('jp', j)) if j else Builder()
        if len(sc.bits):
            b.store_bits(sc.bits)
        for r in sc.refs:
            b.store_ref(to_real(r, via='builder'))
        s = b.end_cell().begin_parse()
        s.skip_bits(j)
        c = s.to_cell()
        if len(sc.bits) >= 2:
            s.load_bits(2)
        if len(sc.bits) >= 3:
            s.load_bit()
        if sc.refs:
            s.load_ref()
        if len(sc.bits) >= 12:
            s.load_uint(8)
        return c
    if route == 'boc_stored_hashes':
        # a foreign bag of cells that carries stored hashes and depths - arbitrary ones: whatever the parser makes of
        # them, a cell it returns reports the hash and depth of its own contents
        from specs import bocspec
        nodes = topo(sc)[::-1]
        pos = {id(c): k for k, c in enumerate(nodes)}
        ecs = []
        for k, c in enumerate(nodes):
            hs = ds = None
            if k == 0 or k % 2 == 1:
                hs = [ctx.bytes_(f'sh{k}', 32)]
                ds = [ctx.bytes_(f'sd{k}', 2)]
            ecs.append(bocspec.ECell(c.bits, [pos[id(r)] for r in c.refs], exotic=False, mask=0, hashes=hs,
                                     depths=None if ds is None else [_RawBytes(d) for d in ds]))
        data = bocspec.encode(ecs, roots=(0,))
        try:
            return Cell.one_from_boc(data)
        except Exception:
            return None
    if route == 'derived_then_changed':
        # objects derived from the cell are changed afterwards (a builder gains a reference and bits, a slice is read, a copy's
        # builder is written): the cell still reports the hash and depth of what it holds
        c = base
        b = c.to_builder()
        if len(sc.refs) < 4:
            b.store_ref(Builder().store_uint(6, 3).end_cell())
        if len(sc.bits) < 1000:
            b.store_uint(1, 1)
            b.store_bit(0)
        s = c.begin_parse()
        if len(sc.bits) >= 3:
            s.load_bits(2)
            s.load_uint(1)
        if sc.refs:
            s.load_ref()
        cb = c.copy().to_builder()
        if len(sc.refs) < 4:
            cb.store_ref(Builder().end_cell())
        return c
    if route == 'builder_reused':
        # the cell is finished, then its builder goes on being used (another reference, more bits, a second cell):
        # the finished cell must keep describing - and hashing - what it held when it was finished
        b = Builder()
        if len(sc.bits):
            b.store_bits(sc.bits)
        for r in sc.refs:
            b.store_ref(to_real(r, via='builder'))
        c = b.end_cell()
        if len(sc.bits) < 1000 and len(sc.bits) % 2:
            b.store_uint(5, 3)          # (the first write after end_cell goes through another store family every other length)
        if len(sc.refs) < 4:
            b.store_ref(Builder().store_uint(2, 2).end_cell())
        if len(sc.bits) < 1000:
            b.store_bit(1)
        b.end_cell()
        return c
    if route == 'boc':
        return Cell.one_from_boc(base.to_boc())
    if route == 'plain_bitarray':
        return Cell(bitarray(sc.bits) if len(sc.bits) else bitarray(), [to_real(r) for r in sc.refs])
    raise ValueError(route)


class _RawBytes:
    def __init__(self, b):
        self.b = b

    def to_bytes(self, n, order):
        return self.b


def h_cell(ctx, n, shape, route='builder', twin=None):
    sc = warm(build_shape(ctx, n, shape))
    c = via_route(ctx, sc, route)
    if c is None:
        ctx.require(route == 'boc_stored_hashes', 'a bag of cells with wrong stored hashes may be refused (no cell is returned)')
        return
    want_h = cell_hash(sc, 0)
    want_d = cell_depth(sc, 0)
    if twin == 'pad0':
        k = len(sc.bits)
        alt = SC(ORD, sc.bits, sc.refs)
        alt_bytes = bytes_of_bits(cat_bits(sc.bits, '0' * ((-k) % 8)))      # completion tag forgotten
        pre = d1d2(sc, 0) + alt_bytes
        for r in sc.refs:
            pre = pre + cell_depth(r, 0).to_bytes(2, 'big')
        for r in sc.refs:
            pre = pre + cell_hash(r, 0)
        want_h = sha256(pre)
    ctx.require(c.hash == want_h, 'hash is the SHA-256 of the standard representation')
    ctx.require(c.get_depth() == want_d, 'depth is one more than the deepest child')
    ok = True
    for lvl in range(4):
        ok = And(ok, c.get_hash(lvl) == want_h, c.get_depth(lvl) == want_d)
    ctx.require(ok, 'per-level hashes and depths of an ordinary cell all equal the representation hash/depth')
    ctx.require(c.level_mask.mask == 0, 'ordinary tree has level 0')
    ctx.require(c.bits.to01() == sc.bits, 'data bits')
    ctx.observe('depth', c.get_depth())
    ctx.observe('bits', c.bits.to01())
    ctx.require(c.calculate_representation_hash() == c.hash, 'explicitly recomputed representation hash agrees with the cached one')
    ctx.require(c.get_representation() == representation(sc), 'representation bytes')


def h_eq(ctx, n, k):
    """two cells of equal shape with independent symbolic contents: equality, raw __hash__ and dict collisions follow
    the representation hashes"""
    a = SC(ORD, ctx.bitstr('a', n), [_leaf(ctx, f'ak{i}', 3) for i in range(k)])
    b = SC(ORD, ctx.bitstr('b', n), [_leaf(ctx, f'bk{i}', 3) for i in range(k)])
    ca, cb = to_real(a, via='builder'), to_real(b, via='builder')
    ha, hb = cell_hash(a, 0), cell_hash(b, 0)
    spec_eq = ha == hb
    # under the injective-hash contract equal hashes mean equal contents
    same_content = a.bits == b.bits
    for x, y in zip(a.refs, b.refs):
        same_content = And(same_content, x.bits == y.bits)
    ctx.require(Iff(spec_eq, same_content), 'oracle sanity: hashes equal iff contents equal (injective hash)')
    ctx.require(Iff(ca == cb, spec_eq), 'cells compare equal exactly when their hashes are equal')
    ctx.require(Iff(ca != cb, Not(spec_eq)) if hasattr(Cell, '__ne__') and Cell.__ne__ is not object.__ne__ else True, 'inequality is the negation')
    # raw hash value (the hook's constant-hash rewrite is bypassed)
    from sx import hook as _h
    if ctx.symbolic:
        _h.RAW_HASH[0] = True
    try:
        ra, rb = ca.__hash__(), cb.__hash__()
    finally:
        if ctx.symbolic:
            _h.RAW_HASH[0] = False
    ctx.require(ra == uint_of_bits(bits_of_bytes(ha)), '__hash__ is the big-endian integer of the hash')
    ctx.require(Implies(spec_eq, ra == rb), 'equal cells have equal __hash__')
    d = {ca: 'x'}
    found = cb in d
    ctx.require(Iff(found, spec_eq), 'cells collide as dictionary keys exactly when their hashes are equal')


def h_pair(ctx, kind, n):
    """two different cells built in one process that agree in part of what is hashed (same padded data bytes, same data with
    other references, one a prefix of the other): each reports the hash of its own representation and they are different
    cells (a hash remembered under a key that does not determine the cell would show here)"""
    x = ctx.bitstr('x', n)
    kid = _leaf(ctx, 'k', 5)
    if kind == 'padded':
        # B's data is A's completion-tag padded form spelled out: equal data bytes, other length descriptor
        a = SC(ORD, x, [])
        b = SC(ORD, cat_bits(x, '1', '0' * ((7 - n) % 8)), [])
    elif kind == 'padded_refs':
        a = SC(ORD, x, [kid])
        b = SC(ORD, cat_bits(x, '1', '0' * ((7 - n) % 8)), [kid])
    elif kind == 'refs':
        a = SC(ORD, x, [])
        b = SC(ORD, x, [kid])
    elif kind == 'refs2':
        a = SC(ORD, x, [kid])
        b = SC(ORD, x, [kid, kid])
    elif kind == 'prefix':
        a = SC(ORD, x, [])
        b = SC(ORD, cat_bits(x, '0'), [])
    else:
        raise ValueError(kind)
    warm(a), warm(b)
    for order in ((a, b), (b, a)):
        got = [to_real(c, via='builder') for c in order]
        for c, r in zip(order, got):
            ctx.require(r.hash == cell_hash(c, 0), 'two related cells in one process: each has the hash of its own representation')
            ctx.require(r.calculate_representation_hash() == cell_hash(c, 0), 'two related cells in one process: recomputed hash')
        ctx.require(Not(got[0] == got[1]) if not isinstance(got[0] == got[1], bool) else not (got[0] == got[1]), 'two related cells in one process: they are different cells')


h_pair.symkeys = True          # the code under test may key a table by (symbolic) cell contents


def h_depth_limit(ctx, depth):
    x = ctx.bitstr('x', 4)
    sub = to_real(_chain_spec(depth - 1), via='builder')
    try:
        c = Builder().store_bits(x).store_ref(sub).end_cell()
        raised = False
    except Exception:
        raised = True
    ctx.require(raised == (depth > 1023), 'depth up to 1023 is accepted, 1024 refused')
    if not raised:
        sc = warm(SC(ORD, x, [_chain_spec(depth - 1)]))
        ctx.require(c.get_depth() == depth, 'deep chain: depth')
        ctx.require(c.hash == cell_hash(sc, 0), 'deep chain: hash')


QUICK_N = sorted(set(list(range(0, 18)) + [23, 24, 25, 31, 32, 33, 63, 64, 65, 71, 72, 127, 128, 129, 255, 256, 257, 511, 512, 513,
                                            1007, 1008, 1009] + list(range(1015, 1024))))
SHAPES = ['leaves0', 'leaves1', 'leaves2', 'leaves3', 'leaves4', 'chain1', 'chain2', 'chain255', 'chain256', 'shared2', 'shared4',
          'diamond', 'uneven']
ROUTES = ['ctor', 'builder', 'copy', 'parse_to_cell', 'to_builder', 'slice_consumed', 'boc', 'plain_bitarray', 'builder_reused',
          'slice_then_read', 'boc_stored_hashes', 'derived_then_changed']


def instances(tier, seed):
    for n in range(0, 1024):
        for k in range(5):
            if tier == 'thorough' or n in QUICK_N or k == (n + seed) % 5:
                yield 'h_cell', dict(n=n, shape=f'leaves{k}')
    for shape in SHAPES[5:]:
        for n in (0, 1, 7, 8, 9, 1023):
            if tier == 'quick' and shape in ('chain255', 'chain256') and n not in (0, 9):
                continue
            yield 'h_cell', dict(n=n, shape=shape)
    for route in ROUTES:
        for n in ((0, 1, 7, 8, 13, 1016, 1023) if tier == 'quick' else (0, 1, 2, 7, 8, 9, 13, 64, 255, 256, 1015, 1016, 1017, 1022, 1023)):
            for shape in ('leaves0', 'leaves2', 'leaves4', 'diamond'):
                if route in ('slice_consumed', 'slice_then_read') and n > 1018:
                    continue
                yield 'h_cell', dict(n=n, shape=shape, route=route)
    for n in (0, 1, 8, 9, 64):
        for k in (0, 1, 2):
            yield 'h_eq', dict(n=n, k=k)
    for kind in ('padded', 'padded_refs', 'refs', 'refs2', 'prefix'):
        for n in ((1, 7, 9, 1015) if tier == 'quick' else (1, 2, 3, 6, 7, 9, 15, 17, 1009, 1015)):
            yield 'h_pair', dict(kind=kind, n=n)
    for d in ((1023, 1024) if tier == 'quick' else (1022, 1023, 1024)):
        yield 'h_depth_limit', dict(depth=d)


def twins(tier, seed):
    yield 'h_cell', dict(n=5, shape='leaves1', twin='pad0')
    yield 'h_cell', dict(n=13, shape='leaves0', twin='pad0')


INSTANCE_TIMEOUT = {'quick': 200, 'thorough': 900}
BOUNDS = {
    'data bits': 'all contents; every length 0..1023 (quick: each length with one seeded reference count, all 5 counts at the boundary lengths; thorough: all 5120 combinations)',
    'references': '0..4 leaf children with symbolic contents; shape family: ' + ' '.join(SHAPES),
    'routes': ' '.join(ROUTES),
    'related pairs': 'two cells in one process sharing padded data bytes / data / a prefix, built in both orders',
    'depth': 'chains of depth 255/256 under a symbolic cell; 1022/1023/1024 at the limit',
}
OUTSIDE = ['DAG shapes outside the family', 'cells with more than 4 references (C07)', 'exotic cells (C02)']
STUBS = ['hashlib.sha256: injective uninterpreted function (equal pre-images <=> equal digests)']
ASSUMPTIONS = ['SHA-256 is collision-free on the inputs considered (the assumption under which TON itself is sound)',
               'cell representation as written in specs/cellspec.py (validated by the hashes pinned in the repo\'s tests through replays)']
