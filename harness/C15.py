"""C15 - messages, state-inits and currency values serialise per block.tlb and round-trip.

Engine A on MessageAny.serialize/deserialize, the three header classes, StateInit, TickTock, CurrencyCollection,
ExtraCurrencyCollection, WalletV3/V4Data, HighloadWalletData, NftItemData/SaleFees/SaleData, HashUpdate.
Oracle: specs/tlbspec.py.  Symbolic: addresses, amounts (each length class), flags, times, extra-currency amounts, body
and state-init contents.  Enumerated: header kind, address forms, state-init shape, body size around the remaining
capacity, 0..4 body references, extra-currency dictionaries with 0..2 entries.
"""
import itertools
import random

from sx.api import *
from sx import core as C
from specs.cellspec import *
from specs.tlbspec import *
from specs import tlbspec
from pytoniq_core.boc import Builder, Cell, Slice, Address, ExternalAddress
from pytoniq_core.tlb.transaction import MessageAny, InternalMsgInfo, ExternalMsgInfo, ExternalOutMsgInfo
from pytoniq_core.tlb.account import StateInit, TickTock
from pytoniq_core.tlb.block import CurrencyCollection, ExtraCurrencyCollection
from pytoniq_core.tlb.utils import HashUpdate
from pytoniq_core.tlb.custom.wallet import WalletV3Data, WalletV4Data, HighloadWalletData
from pytoniq_core.tlb.custom.nft import NftItemData, NftItemSaleFees, NftItemSaleData

PROPERTY = 'C15'


def same_structure(rc, sc):
    ok = And(rc.bits.to01() == sc.bits, rc.type_ == sc.typ, len(rc.refs) == len(sc.refs))
    if len(rc.refs) == len(sc.refs):
        for r, s in zip(rc.refs, sc.refs):
            ok = And(ok, same_structure(r, s))
    return ok


def amount(ctx, name, L):
    """an amount of byte-length class L (0: the value 0; otherwise the top byte is non-zero), symbolic"""
    if L == 0:
        return 0
    v = ctx.uint(name, 8 * L)
    ctx.assume(v >= (1 << (8 * (L - 1))))
    return v


def mk_addr(ctx, form, name):
    """(library value, spec value); a form ending in '=' names the same account as the source address (its own anycast part)"""
    acc_name = name
    if form.endswith('='):
        form, acc_name = form[:-1], 'src'
    if form == 'none':
        return None, None
    if form == 'std':
        wc, acc = ctx.sint(acc_name + '_wc', 8), ctx.bytes_(acc_name + '_acc', 32)
        return Address((wc, acc)), ('std', wc, acc)
    if form.startswith('any'):
        d = int(form[3:])
        wc, acc, pfx = ctx.sint(acc_name + '_wc', 8), ctx.bytes_(acc_name + '_acc', 32), ctx.uint(name + '_pfx', d)
        a = Address((wc, acc))
        a.set_anycast(d, pfx)
        return a, ('any', d, pfx, wc, acc)
    if form.startswith('ext'):
        n = int(form[3:])
        v = ctx.uint(name + '_x', n) if n else 0
        return ExternalAddress(v, n), ('ext', n, v)
    raise ValueError(form)


def addr_eq(got, spec):
    if spec is None:
        return got is None
    if spec[0] == 'ext':
        return isinstance(got, ExternalAddress) and And(got.len == spec[1], got.external_address == spec[2])
    if not isinstance(got, Address):
        return False
    if spec[0] == 'std':
        return And(got.wc == spec[1], got.hash_part == spec[2], got.anycast is None)
    return And(got.wc == spec[3], got.hash_part == spec[4], got.anycast is not None and And(got.anycast.depth == spec[1], got.anycast.rewrite_pfx == spec[2]))


def mk_cell(ctx, name, nbits, nrefs):
    kids = [SC(ORD, ctx.bitstr(f'{name}_k{i}', 2 + i), []) for i in range(nrefs)]
    return SC(ORD, ctx.bitstr(name, nbits) if nbits else '', kids)


INIT_SHAPES = {
    'none': None,
    'empty': dict(),
    'code_data': dict(code=1, data=1),
    'full': dict(split_depth=True, special=True, code=1, data=1, library=1),
    'lib_only': dict(library=1),
    'depth_only': dict(split_depth=True),
    'special_only': dict(special=True),
}


FLAG = {'sym': 0}


def flag(ctx, name, idx):
    """Bool fields read through load_bool() need a real bool, so each symbolic flag doubles the paths: one flag per
    instance is symbolic (chosen by FLAG['sym']), the others take fixed values"""
    if FLAG['sym'] % 4 == idx:
        return bool(ctx.boolean(name))
    return bool((FLAG['sym'] >> (2 + idx)) & 1)


def mk_init(ctx, shape):
    sh = INIT_SHAPES[shape]
    if sh is None:
        return None, None
    spec, kw = {}, {}
    if sh.get('split_depth'):
        d = ctx.uint('split_depth', 5)
        spec['split_depth'], kw['split_depth'] = d, d
    if sh.get('special'):
        t, k = flag(ctx, 'tick', 2), flag(ctx, 'tock', 3)
        spec['special'], kw['special'] = (t, k), TickTock(t, k)
    for i, f in enumerate(('code', 'data', 'library')):
        if sh.get(f):
            sc = mk_cell(ctx, f, 9 + i, 1 if f == 'code' else 0)
            spec[f], kw[f] = sc, to_real(sc)
    return StateInit(**kw), spec


def init_eq(got, spec):
    if spec is None:
        return got is None
    if got is None:
        return False
    ok = True
    sd = spec.get('split_depth')
    ok = And(ok, (got.split_depth is None) if sd is None else (got.split_depth is not None and got.split_depth == sd))
    sp = spec.get('special')
    ok = And(ok, (got.special is None) if sp is None else (got.special is not None and got.special.tick == sp[0] and got.special.tock == sp[1]))
    for f in ('code', 'data', 'library'):
        g = getattr(got, f)
        if spec.get(f) is None:
            ok = And(ok, g is None)
        else:
            ok = And(ok, g is not None and same_structure(g, spec[f]))
    return ok


def mk_message(ctx, kind, src, dest, gl, extra_n, fee_l):
    """library header object and the specification's field dict"""
    s_lib, s_spec = mk_addr(ctx, src, 'src')
    d_lib, d_spec = mk_addr(ctx, dest, 'dst')
    if kind == 'int':
        extra = {k: amount(ctx, f'extra{k}', 1 + i) for i, k in enumerate([1, 0x80000000, 77][:extra_n])}
        m = dict(kind='int', ihr_disabled=flag(ctx, 'ihr_disabled', 0), bounce=flag(ctx, 'bounce', 1), bounced=bool((FLAG['sym'] >> 6) & 1),
                 src=s_spec, dest=d_spec, grams=amount(ctx, 'grams', gl), extra=extra, ihr_fee=amount(ctx, 'ihr_fee', fee_l),
                 fwd_fee=amount(ctx, 'fwd_fee', fee_l), created_lt=ctx.uint('created_lt', 64), created_at=ctx.uint('created_at', 32))
        info = InternalMsgInfo(m['ihr_disabled'], m['bounce'], m['bounced'], s_lib, d_lib,
                               CurrencyCollection(m['grams'], ExtraCurrencyCollection(dict(extra))), m['ihr_fee'], m['fwd_fee'],
                               m['created_lt'], m['created_at'])
    elif kind == 'ext_in':
        m = dict(kind='ext_in', src=s_spec, dest=d_spec, import_fee=amount(ctx, 'import_fee', fee_l))
        info = ExternalMsgInfo(s_lib, d_lib, m['import_fee'])
    else:
        m = dict(kind='ext_out', src=s_spec, dest=d_spec, created_lt=ctx.uint('created_lt', 64), created_at=ctx.uint('created_at', 32))
        info = ExternalOutMsgInfo(s_lib, d_lib, m['created_lt'], m['created_at'])
    return info, m


def info_eq(got, m):
    k = m['kind']
    cls = {'int': InternalMsgInfo, 'ext_in': ExternalMsgInfo, 'ext_out': ExternalOutMsgInfo}[k]
    if not isinstance(got, cls):
        return False
    ok = And(addr_eq(got.src, m['src']), addr_eq(got.dest, m['dest']))
    if k == 'int':
        ok = And(ok, got.ihr_disabled == m['ihr_disabled'], got.bounce == m['bounce'], got.bounced == m['bounced'],
                 got.value.grams == m['grams'], got.ihr_fee == m['ihr_fee'], got.fwd_fee == m['fwd_fee'],
                 got.created_lt == m['created_lt'], got.created_at == m['created_at'], got.value_coins == m['grams'])
        d = got.value.other.dict or {}
        if sorted(d) != sorted(m['extra']):
            return False
        for key, v in m['extra'].items():
            ok = And(ok, d[key] == v)
    elif k == 'ext_in':
        ok = And(ok, got.import_fee == m['import_fee'])
    else:
        ok = And(ok, got.created_lt == m['created_lt'], got.created_at == m['created_at'])
    return ok


def h_message(ctx, kind='int', src='std', dest='std', gl=1, extra_n=0, fee_l=0, init='none', body='fit', body_refs=0, twin=None, fsel=0):
    FLAG['sym'] = fsel
    info, m = mk_message(ctx, kind, src, dest, gl, extra_n, fee_l)
    init_lib, init_spec = mk_init(ctx, init)
    # body size relative to the room left when everything else is inline
    w = w_msg_info(W(), m)
    used = len(w.b) + 1 + (0 if init_spec is None else 1 + len(w_state_init(W(), init_spec).b)) + 1
    room = 1023 - used
    nb = {'empty': 0, 'one': 1, 'max': 1023, 'fit': room, 'fit-1': room - 1, 'fit+1': room + 1, 'fit-2': room - 2, 'fit+2': room + 2}[body]
    nb = max(0, min(1023, nb))
    body_spec = mk_cell(ctx, 'body', nb, body_refs)
    body_lib = to_real(body_spec)
    msg = MessageAny(info, init_lib, body_lib)
    ctx.known('state_init_refs_ignore_body', init_spec is not None and body_refs > 0)
    cell = msg.serialize()                                   # must never fail for lack of room
    encs = message_encodings(m, init_spec, body_spec)
    ctx.require(len(encs) > 0, 'the specification has a valid encoding')
    ok = Or(*[same_structure(cell, e) for (_, _, e) in encs]) if twin != 'none' else False
    ctx.require(ok, 'the cell decodes under block.tlb to the same logical message (it is one of its valid encodings)')
    ctx.observe('bits', len(cell.bits))
    back = MessageAny.deserialize(cell.begin_parse())
    ctx.require(And(info_eq(back.info, m), init_eq(back.init, init_spec), same_structure(back.body, body_spec)),
                'deserialize(serialize(m)) equals m')
    for (ir, br, e) in encs:
        got = MessageAny.deserialize(to_real(warm(e)).begin_parse())
        ctx.require(And(info_eq(got.info, m), init_eq(got.init, init_spec), same_structure(got.body, body_spec)),
                    'every valid encoding of m is parsed to m')


def h_state_init(ctx, shape, fsel=2):
    FLAG['sym'] = fsel
    lib, spec = mk_init(ctx, shape)
    cell = lib.serialize()
    ctx.require(same_structure(cell, w_state_init(W(), spec).cell()), 'StateInit cell is the block.tlb encoding')
    tail = ctx.bitstr('tail', 3)
    s = Builder().store_cell(cell).store_bits(tail).end_cell().begin_parse()
    back = StateInit.deserialize(s)
    ctx.require(init_eq(back, spec), 'StateInit round trip')
    ctx.require(s.bits.to01() == tail, 'StateInit parser consumes exactly its bits')


def h_currency(ctx, gl, extra_n):
    extra = {k: amount(ctx, f'extra{k}', 1 + 15 * i) for i, k in enumerate([5, 0xffffffff][:extra_n])}
    g = amount(ctx, 'grams', gl)
    cc = CurrencyCollection(g, ExtraCurrencyCollection(dict(extra)))
    cell = cc.serialize()
    ctx.require(same_structure(cell, w_cc(W(), g, extra).cell()), 'CurrencyCollection cell is the block.tlb encoding')
    tail = ctx.bitstr('tail', 3)
    s = Builder().store_cell(cell).store_bits(tail).end_cell().begin_parse()
    back = CurrencyCollection.deserialize(s)
    d = back.other.dict or {}
    ok = back.grams == g
    if sorted(d) != sorted(extra):
        ok = False
    else:
        for k, v in extra.items():
            ok = And(ok, d[k] == v)
    ctx.require(ok, 'CurrencyCollection round trip')
    ctx.require(s.bits.to01() == tail, 'CurrencyCollection parser consumes exactly its bits')
    cc0 = CurrencyCollection(g)
    ctx.require(same_structure(cc0.serialize(), w_cc(W(), g, {}).cell()), 'CurrencyCollection without extra currencies')


def h_wrappers(ctx, which, opt=0):
    pk = ctx.bytes_('pk', 32)
    if which == 'wallet_v3':
        seqno, wid = ctx.uint('seqno', 32), ctx.uint('wid', 32)
        cell = WalletV3Data(seqno, wid, pk).serialize()
        ctx.require(same_structure(cell, W().u(seqno, 32).u(wid, 32).bytes_(pk).cell()), 'wallet_v3_data encoding')
        b = WalletV3Data.deserialize(cell.begin_parse())
        ctx.require(And(b.seqno == seqno, b.wallet_id == wid, b.public_key == pk), 'wallet_v3_data round trip')
    elif which == 'wallet_v4':
        seqno, wid = ctx.uint('seqno', 32), ctx.uint('wid', 32)
        plug = mk_cell(ctx, 'plug', 7, 1) if opt else None
        cell = WalletV4Data(seqno, wid, pk, to_real(plug) if plug else None).serialize()
        w = W().u(seqno, 32).u(wid, 32).bytes_(pk)
        w.bits('1').ref(plug) if plug else w.bits('0')
        ctx.require(same_structure(cell, w.cell()), 'wallet_v4_data encoding')
        b = WalletV4Data.deserialize(cell.begin_parse())
        ctx.require(And(b.seqno == seqno, b.wallet_id == wid, b.public_key == pk,
                        (b.plugins is None) if not plug else (b.plugins is not None and same_structure(b.plugins, plug))), 'wallet_v4_data round trip')
    elif which == 'highload':
        wid, lc = ctx.uint('wid', 32), ctx.uint('lc', 64)
        cell = HighloadWalletData(wid, lc, pk, None).serialize()
        ctx.require(same_structure(cell, W().u(wid, 32).u(lc, 64).bytes_(pk).bits('0').cell()), 'highload_wallet_data encoding (no old queries)')
        b = HighloadWalletData.deserialize(cell.begin_parse())
        ctx.require(And(b.wallet_id == wid, b.last_cleaned == lc, b.public_key == pk, not b.old_queries), 'highload_wallet_data round trip')
    elif which == 'highload_q':
        from pytoniq_core.tlb.custom.wallet import WalletMessage
        wid, lc = ctx.uint('wid', 32), ctx.uint('lc', 64)
        info, m = mk_message(ctx, 'ext_in', 'none', 'std', 0, 0, 1)
        msg = MessageAny(info, None, to_real(mk_cell(ctx, 'body', 8, 0)))
        ctx.known('highload_old_queries_dropped', True)
        cell = HighloadWalletData(wid, lc, pk, {5: WalletMessage(3, msg)}).serialize()
        ctx.require(And(cell.bits.to01()[-1:] == '1', len(cell.refs) == 1), 'highload_wallet_data with old queries: the dictionary is serialised')
        back = HighloadWalletData.deserialize(cell.begin_parse())
        q = back.old_queries or {}
        ok = And(back.wallet_id == wid, back.last_cleaned == lc, back.public_key == pk, sorted(q) == [5])
        if sorted(q) == [5] and q[5] is not None:
            ok = And(ok, q[5].send_mode == 3, info_eq(q[5].message.info, m), q[5].message.init is None)
        else:
            ok = False
        ctx.require(ok, 'highload_wallet_data with old queries: round trip')
    elif which == 'hash_update':
        a, b_ = ctx.bytes_('old', 32), ctx.bytes_('new', 32)
        cell = HashUpdate(a, b_).serialize()
        ctx.require(same_structure(cell, W().u(0x72, 8).bytes_(a).bytes_(b_).cell()), 'update_hashes#72 encoding')
        g = HashUpdate.deserialize(cell.begin_parse())
        ctx.require(And(g.old_hash == a, g.new_hash == b_), 'HashUpdate round trip')
    elif which == 'nft_item':
        idx = ctx.uint('idx', 64)
        ca, cs = mk_addr(ctx, 'std', 'coll')
        oa, os_ = mk_addr(ctx, 'std' if opt else 'none', 'own')
        content = mk_cell(ctx, 'content', 11, 1)
        cell = NftItemData(index=idx, collection_address=ca, owner_address=oa, content=to_real(content)).serialize()
        w = W().u(idx, 64)
        w_addr(w, cs)
        w_addr(w, os_)
        ctx.require(same_structure(cell, w.ref(content).cell()), 'nft item data encoding')
        g = NftItemData.deserialize(cell.begin_parse())
        ctx.require(And(g.index == idx, addr_eq(g.collection_address, cs), addr_eq(g.owner_address, os_), same_structure(g.content, content)),
                    'nft item data round trip')
    elif which == 'nft_sale':
        ma, ms = mk_addr(ctx, 'std', 'mkt')
        na, ns = mk_addr(ctx, 'std', 'nft')
        oa, os_ = mk_addr(ctx, 'std', 'own')
        fa, fs = mk_addr(ctx, 'std', 'feeaddr')
        ra, rs = mk_addr(ctx, 'none' if opt else 'std', 'roy')
        price, fee, roy = amount(ctx, 'price', 5), amount(ctx, 'fee', 2), amount(ctx, 'roy', opt)
        created = ctx.uint('created', 32)
        done, ext = bool(ctx.boolean('done')), bool(ctx.boolean('ext'))
        fees = NftItemSaleFees(marketplace_fee_address=fa, marketplace_fee=fee, royalty_address=ra, royalty_amount=roy)
        wf = W()
        w_addr(wf, fs)
        wf.grams(fee)
        w_addr(wf, rs)
        wf.grams(roy)
        ctx.require(same_structure(fees.serialize(), wf.cell()), 'nft sale fees encoding')
        sale = NftItemSaleData(is_complete=done, created_at=created, marketplace_address=ma, nft_address=na, nft_owner_address=oa,
                               full_price=price, fees_cell=fees, can_deploy_by_external=ext)
        w = W().bool_(done).u(created, 32)
        for a in (ms, ns, os_):
            w_addr(w, a)
        w.grams(price).ref(wf.cell()).bool_(ext)
        cell = sale.serialize()
        ctx.require(same_structure(cell, w.cell()), 'nft sale data encoding')
        g = NftItemSaleData.deserialize(cell.begin_parse())
        ctx.require(And(g.is_complete == done, g.created_at == created, addr_eq(g.marketplace_address, ms), addr_eq(g.nft_address, ns),
                        addr_eq(g.nft_owner_address, os_), g.full_price == price, g.can_deploy_by_external == ext,
                        addr_eq(g.fees_cell.marketplace_fee_address, fs), g.fees_cell.marketplace_fee == fee,
                        addr_eq(g.fees_cell.royalty_address, rs), g.fees_cell.royalty_amount == roy), 'nft sale data round trip')


def h_lint(ctx):
    import os
    missing = tlbspec.lint(os.environ.get('SX_REPO', '/repo'))
    ctx.require(not missing, 'constructors quoted by the specification occur in block.tlb ' + str(missing))


# ------------------------------------------------------------------------------- instances
def instances(tier, seed):
    rnd = random.Random(seed)
    yield 'h_lint', dict()
    bodies = ['empty', 'one', 'fit-2', 'fit-1', 'fit', 'fit+1', 'fit+2', 'max']
    combos = []
    for kind, srcs, dests in (('int', ['std', 'any5'], ['std', 'none']), ('ext_in', ['none', 'ext0', 'ext9', 'ext256'], ['std']),
                              ('ext_out', ['std'], ['none', 'ext64', 'ext511'])):
        for src in srcs:
            for dest in dests:
                for init in INIT_SHAPES:
                    for body in bodies:
                        for br in (0, 1, 2, 4):
                            for (gl, en, fl) in ((1, 0, 0), (15, 2, 2), (3, 1, 15)) if kind == 'int' else ((0, 0, 3),):
                                combos.append(dict(kind=kind, src=src, dest=dest, gl=gl, extra_n=en, fee_l=fl, init=init, body=body, body_refs=br,
                                                   fsel=len(combos) % 128))
    if tier == 'quick':
        must = [c for c in combos if c['init'] == 'full' and c['body_refs'] in (1, 4) and c['body'] in ('fit', 'fit+1', 'empty')
                and c['kind'] == 'int' and c['src'] == 'std' and c['dest'] == 'std']
        pick = rnd.sample(combos, 200) + must
        # 15-byte fees make every obligation a 120-bit var-length query (60 s an instance): quick keeps a seeded 20 of them and
        # runs the others with 7-byte fees; thorough keeps them all
        heavy = [c for c in pick if c['fee_l'] == 15]
        keep = {id(c) for c in rnd.sample(heavy, min(20, len(heavy)))}
        pick = [c if (c['fee_l'] != 15 or id(c) in keep) else dict(c, fee_l=7) for c in pick]
    else:
        pick = combos if len(combos) <= 1500 else rnd.sample(combos, 1500)
        # sized so that the tier finishes inside its wall-clock cap: at most 150 of the 15-byte-fee instances (a minute each)
        heavy = [c for c in pick if c['fee_l'] == 15]
        keep = {id(c) for c in rnd.sample(heavy, min(150, len(heavy)))}
        pick = [c if (c['fee_l'] != 15 or id(c) in keep) else dict(c, fee_l=7) for c in pick]
    # the expensive header class first: the pool then ends on cheap instances instead of waiting for a late expensive one
    pick = sorted(pick, key=lambda c: -(c['fee_l'] + c['gl']))
    seen = set()
    for c in pick:
        k = repr(sorted(c.items()))
        if k not in seen:
            seen.add(k)
            yield 'h_message', c
    # header so long that the state-init placement decides whether the cell overflows: all amounts 15 bytes, anycast depth sweeps
    # the header length across the boundary (header + Maybe/Either bits + init + body Either bit vs 1023)
    for d in ((2, 3, 4, 5, 6) if tier == 'quick' else range(1, 9)):      # (depth 9 and more with three 15-byte amounts and a state-init: header + flag bits exceed 1023 bits, not representable)
        for init in (('empty', 'special_only') if tier == 'quick' else ('empty', 'special_only', 'depth_only', 'lib_only')):
            for body in (('empty',) if tier == 'quick' else ('empty', 'one', 'fit')):
                yield 'h_message', dict(kind='int', src=f'any{d}', dest='std', gl=15, extra_n=0, fee_l=15, init=init, body=body, body_refs=0, fsel=d)
    # a message from an account to itself, the two header addresses differing in their anycast part only
    for src, dest in (('any5', 'std='), ('std', 'any3='), ('any2', 'any7=')):
        for body in ('empty', 'fit'):
            yield 'h_message', dict(kind='int', src=src, dest=dest, gl=1, extra_n=0, fee_l=0, init='none', body=body, body_refs=0, fsel=3)
    for sh in INIT_SHAPES:
        if sh != 'none':
            for fsel in (2, 3, 7, 11):
                yield 'h_state_init', dict(shape=sh, fsel=fsel)
    for gl in (0, 1, 2, 8, 15):
        for en in (0, 1, 2):
            yield 'h_currency', dict(gl=gl, extra_n=en)
    yield 'h_wrappers', dict(which='highload_q')
    for which in ('wallet_v3', 'wallet_v4', 'highload', 'hash_update', 'nft_item', 'nft_sale'):
        for opt in (0, 1):
            yield 'h_wrappers', dict(which=which, opt=opt)


def twins(tier, seed):
    yield 'h_message', dict(twin='none')


INSTANCE_TIMEOUT = {'quick': 200, 'thorough': 900}
BOUNDS = {
    'messages': 'internal / external-in / external-out; addr_std, anycast depth 5, addr_none, addr_extern of 0/9/64/256/511 bits; Grams length classes 0/1/2/3/15 bytes; one Bool flag symbolic per instance; '
                '0..2 extra currencies; 6 state-init shapes; body of 0, 1, room-2..room+2, 1023 bits with 0/1/2/4 references (quick: 200 seeded combinations, plus maximal headers with anycast depth 2..6 (thorough 1..10) around the cell capacity '
                'plus the full-state-init boundary cases; thorough: 3000)',
    'values': 'account ids, workchains, amounts within their length class, times, flags, cell contents: symbolic',
    'wrappers': 'StateInit (5 shapes), CurrencyCollection (5 Grams classes x 0..2 extra currencies), WalletV3/V4Data, HighloadWalletData without and with one old query, '
                'HashUpdate, NftItemData, NftItemSaleFees/SaleData',
}
OUTSIDE = ['messages whose header alone does not fit a cell (long anycast prefixes with maximal amounts): not representable in TON either', 'addr_var']
STUBS = ['hashlib.sha256: injective uninterpreted function']
ASSUMPTIONS = ['specs/tlbspec.py (constructors quoted from block.tlb and linted against the repository\'s copy)']
