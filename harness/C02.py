"""C02 - exotic cells: level masks, per-level hashes and depths, Merkle pruning invariance.

Engine A on Cell.__init__/resolve_mask/calculate_hashes/get_hash/get_depth, LevelMask, Boc.deserialize_cell (exotic
type byte) and Builder(type_=...).  Symbolic: the data of ordinary cells and, crucially, the hashes and depths stored
inside pruned branches and Merkle cells - so every offset computation is checked for all stored values.  Enumerated:
cell type, level masks 1..7, nesting shapes up to level 3, which subtrees are pruned.
"""
import itertools

from sx.api import *
from specs.cellspec import *
from pytoniq_core.boc import Builder, Cell, Slice

PROPERTY = 'C02'


def sym_pruned(ctx, name, mask):
    k = popcount(mask)
    hs = [ctx.bytes_(f'{name}_h{i}', 32) for i in range(k)]
    ds = []
    for i in range(k):
        d = ctx.uint(f'{name}_d{i}', 16)
        ctx.assume(d <= 1000)           # spec-valid: stored depths leave room for the enclosing cells
        ds.append(d)
    return SC(PRUNED, pruned_bits(mask, hs, ds), [])


def sym_mproof(ctx, name, child):
    bits = cat_bits('00000011', ctx.bitstr(name, 256 + 16))
    return SC(MPROOF, bits, [child])


def sym_mupd(ctx, name, a, b):
    bits = cat_bits('00000100', ctx.bitstr(name, 2 * (256 + 16)))
    return SC(MUPD, bits, [a, b])


def O(ctx, name, n, kids):
    return SC(ORD, ctx.bitstr(name, n), kids)


SHAPES = {}


def shape(f):
    SHAPES[f.__name__] = f
    return f


@shape
def pruned(ctx, m): return sym_pruned(ctx, 'p', m)
@shape
def ord_over_pruned(ctx, m): return O(ctx, 'x', 13, [sym_pruned(ctx, 'p', m), O(ctx, 'y', 5, [])])
@shape
def ord_over_two_pruned(ctx, m):
    # masks with gaps reached through siblings of different levels
    a, b = {1: (1, 2), 2: (1, 4), 3: (2, 4), 4: (3, 4), 5: (1, 6), 6: (5, 2), 7: (7, 1)}[m]
    return O(ctx, 'x', 8, [sym_pruned(ctx, 'p', a), sym_pruned(ctx, 'q', b)])
@shape
def mproof_ord_pruned(ctx, m): return sym_mproof(ctx, 'mh', O(ctx, 'x', 9, [sym_pruned(ctx, 'p', m)]))
@shape
def mproof_pruned(ctx, m): return sym_mproof(ctx, 'mh', sym_pruned(ctx, 'p', m))
@shape
def mproof_mproof(ctx, m):
    return sym_mproof(ctx, 'm1', sym_mproof(ctx, 'm2', O(ctx, 'x', 9, [sym_pruned(ctx, 'p', m)])))
@shape
def mproof3(ctx, m):
    return sym_mproof(ctx, 'm1', sym_mproof(ctx, 'm2', sym_mproof(ctx, 'm3', O(ctx, 'x', 3, [sym_pruned(ctx, 'p', m)]))))
@shape
def mupd(ctx, m):
    return sym_mupd(ctx, 'mu', O(ctx, 'x', 9, [sym_pruned(ctx, 'p', 1)]), O(ctx, 'y', 3, [sym_pruned(ctx, 'q', m)]))
@shape
def ord_over_mproof(ctx, m):
    return O(ctx, 'top', 6, [sym_mproof(ctx, 'mh', O(ctx, 'x', 9, [sym_pruned(ctx, 'p', m)])), sym_pruned(ctx, 'q', 1)])
@shape
def library(ctx, m): return library_ref(ctx.bytes_('lh', 32))
@shape
def ord_over_library(ctx, m): return O(ctx, 'x', 4, [library_ref(ctx.bytes_('lh', 32))])


@shape
def max_over_pruned(ctx, m):
    # the largest cell the format allows: 1023 data bits, 4 references, and (through the pruned child) a level mask whose
    # stored hashes and depths - when an encoder writes them - make the serialised cell as long as it can get
    return O(ctx, 'x', 1023, [sym_pruned(ctx, 'p', m), O(ctx, 'a', 1017, []), O(ctx, 'b', 3, []), O(ctx, 'c', 1016, [])])


PAIR_SHAPES = {
    # two siblings of arbitrary, possibly incomparable, level masks below one parent
    'mupd_pruned': lambda ctx, a, b: sym_mupd(ctx, 'mu', sym_pruned(ctx, 'p', a), sym_pruned(ctx, 'q', b)),
    'mupd_ord': lambda ctx, a, b: sym_mupd(ctx, 'mu', O(ctx, 'x', 9, [sym_pruned(ctx, 'p', a)]), O(ctx, 'y', 3, [sym_pruned(ctx, 'q', b)])),
    'ord_pruned2': lambda ctx, a, b: O(ctx, 'x', 8, [sym_pruned(ctx, 'p', a), sym_pruned(ctx, 'q', b)]),
    'ord_over_mupd': lambda ctx, a, b: O(ctx, 't', 5, [sym_mupd(ctx, 'mu', sym_pruned(ctx, 'p', a), sym_pruned(ctx, 'q', b)), O(ctx, 'z', 2, [])]),
    'mproof_over_mupd': lambda ctx, a, b: sym_mproof(ctx, 'mh', sym_mupd(ctx, 'mu', sym_pruned(ctx, 'p', a), sym_pruned(ctx, 'q', b))),
}


def check_cell(ctx, sc, rc, tag):
    ctx.require(rc.level_mask.mask == sc.mask, f'{tag}: level mask')
    for lvl in range(4):
        ctx.require(rc.get_hash(lvl) == cell_hash(sc, lvl), f'{tag}: hash at level {lvl}')
        ctx.require(rc.get_depth(lvl) == cell_depth(sc, lvl), f'{tag}: depth at level {lvl}')
    ctx.require(rc.hash == cell_hash(sc, 3), f'{tag}: .hash is the highest-level hash')


def h_exotic(ctx, shape, m, route='ctor', twin=None):
    sc = warm(SHAPES[shape](ctx, m))
    ctx.known('pruned_mask_gap_hash_index', any(n.typ == PRUNED and n.mask == 6 for n in topo(sc)))
    rc = to_real(sc, via='builder' if route == 'builder' else 'ctor')
    if route == 'boc':
        rc = Cell.one_from_boc(rc.to_boc())
    if route == 'boc_hashes':
        # a foreign bag of cells that stores the hashes and depths of every cell (one per significant level of its mask)
        from harness.C05 import _ecells
        from specs import bocspec
        cells, order, ecs = _ecells(ctx, None, None, 'all', shape, m)
        rc = Cell.one_from_boc(bocspec.encode(ecs, roots=(0,)))
    if twin == 'lvl':
        sc_w = sc
        ctx.require(rc.get_hash(1) == cell_hash(sc_w, 0) if sc.mask & 1 else rc.get_hash(2) == cell_hash(sc_w, 0), 'twin')
        return
    check_cell(ctx, sc, rc, shape)
    # every sub-cell as well (children built by the same route)
    if route in ('boc', 'boc_hashes'):
        for k, (s_kid, r_kid) in enumerate(zip(sc.refs, rc.refs)):
            check_cell(ctx, s_kid, r_kid, shape + ' child')
            ctx.require(r_kid.type_ == s_kid.typ, f'{shape}: parsed child type')
        ctx.require(rc.type_ == sc.typ, f'{shape}: parsed type')


def h_pair(ctx, shape, a, b, route='ctor'):
    """level masks, per-level hashes and depths of a cell over two children with level masks a and b (all 49 pairs:
    comparable and incomparable masks alike)"""
    sc = warm(PAIR_SHAPES[shape](ctx, a, b))
    rc = to_real(sc, via='ctor')
    if route == 'boc':
        rc = Cell.one_from_boc(rc.to_boc())
    check_cell(ctx, sc, rc, shape)
    for s_kid, r_kid in zip(sc.refs, rc.refs):
        ctx.require(r_kid.level_mask.mask == s_kid.mask, f'{shape}: child level mask')


# ------------------------------------------------------------------------------- pruning invariance
TREES = {
    # name -> nested tuples (bits, children)
    'pair': (7, [(3, []), (12, [])]),
    'chain3': (1, [(9, [(4, [])])]),
    'bushy': (5, [(2, [(8, []), (1, [])]), (16, [(3, [])])]),
    'wide': (0, [(1, []), (2, []), (3, []), (4, [])]),
}


def build_tree(ctx, spec, path='t'):
    n, kids = spec
    return O(ctx, path, n, [build_tree(ctx, k, f'{path}{i}') for i, k in enumerate(kids)])


def nodes_with_paths(sc, path=()):
    out = [(path, sc)]
    for i, r in enumerate(sc.refs):
        out += nodes_with_paths(r, path + (i,))
    return out


def prune_copy(sc, prune_paths, path=(), level=1):
    if path in prune_paths:
        return prune(sc, level)
    return SC(sc.typ, sc.bits, [prune_copy(r, prune_paths, path + (i,), level) for i, r in enumerate(sc.refs)])


def h_prune(ctx, tree, prune_paths, under_proof=False, twin=None):
    """replacing subtrees by pruned branches carrying their hash and depth leaves every enclosing level-0 hash/depth unchanged"""
    prune_paths = {tuple(p) for p in prune_paths}
    T = warm(build_tree(ctx, TREES[tree]))
    T2 = warm(prune_copy(T, prune_paths))
    rT = to_real(T, via='builder')
    rT2 = to_real(T2, via='ctor')
    # walk both in parallel over the enclosing (non-pruned) cells
    def walk(a, b, ra, rb, path):
        if b.typ == PRUNED:
            ctx.require(rb.get_hash(0) == ra.hash, 'pruned branch reports the subtree hash at level 0')
            ctx.require(rb.get_depth(0) == ra.get_depth(0), 'pruned branch reports the subtree depth at level 0')
            return
        if twin == 'lvl1':
            ctx.require(rb.get_hash(1) == ra.hash, 'twin: level-1 hash differs when something below is pruned')
        ctx.require(rb.get_hash(0) == ra.hash, 'enclosing cell: level-0 hash unchanged by pruning')
        ctx.require(rb.get_depth(0) == ra.get_depth(0), 'enclosing cell: level-0 depth unchanged by pruning')
        ctx.require(rb.get_hash(0) == cell_hash(a, 0), 'enclosing cell: level-0 hash equals the specification hash of the original')
        for i in range(len(a.refs)):
            walk(a.refs[i], b.refs[i], ra.refs[i], rb.refs[i], path + (i,))
    walk(T, T2, rT, rT2, ())
    ctx.require(rT2.level_mask.mask == (1 if prune_paths else 0), 'pruned tree has level mask 1')
    if under_proof:
        mp = warm(merkle_proof(T2))
        rmp = to_real(mp, via='ctor')
        ctx.require(rmp.level_mask.mask == 0, 'Merkle proof root has level 0')
        ctx.require(rmp.refs[0].get_hash(0) == rT.hash, 'proof child at level 0 is the original root hash')
        check_cell(ctx, mp, rmp, 'proof root')


def instances(tier, seed):
    for m in range(1, 8):
        for sh in SHAPES:
            if sh in ('library', 'ord_over_library') and m > 1:
                continue
            yield 'h_exotic', dict(shape=sh, m=m)
            if sh in ('pruned', 'ord_over_pruned', 'mproof_ord_pruned', 'mupd', 'library'):
                yield 'h_exotic', dict(shape=sh, m=m, route='builder')
                yield 'h_exotic', dict(shape=sh, m=m, route='boc')
            if sh in ('pruned', 'ord_over_pruned', 'mproof_ord_pruned', 'ord_over_two_pruned') and (tier == 'thorough' or (m in (2, 5, 6, 7) and sh != 'ord_over_pruned')):
                yield 'h_exotic', dict(shape=sh, m=m, route='boc_hashes')
    for a in range(1, 8):
        for b in range(1, 8):
            incomparable = (a | b) not in (a, b)
            for sh in PAIR_SHAPES:
                if tier == 'quick' and not (sh == 'mupd_pruned' or (incomparable and (a * 7 + b + seed) % 3 == 0)):
                    continue
                yield 'h_pair', dict(shape=sh, a=a, b=b)
            if incomparable or tier == 'thorough':
                yield 'h_pair', dict(shape='mupd_pruned', a=a, b=b, route='boc')
    for tree, spec in TREES.items():
        paths = [p for p, _ in nodes_with_paths(build_fake(spec)) if p]
        subsets = []
        for r in range(1, len(paths) + 1):
            for sub in itertools.combinations(paths, r):
                # antichains only: a pruned subtree's descendants are gone
                if any(a != b and b[:len(a)] == a for a in sub for b in sub):
                    continue
                subsets.append(sub)
        if tier == 'quick':
            subsets = subsets[:: max(1, len(subsets) // 8)]
        for sub in subsets:
            yield 'h_prune', dict(tree=tree, prune_paths=[list(p) for p in sub])
            yield 'h_prune', dict(tree=tree, prune_paths=[list(p) for p in sub], under_proof=True)


def build_fake(spec):
    n, kids = spec
    return SC(ORD, '0' * n, [build_fake(k) for k in kids])


def twins(tier, seed):
    yield 'h_exotic', dict(shape='ord_over_pruned', m=3, twin='lvl')
    yield 'h_prune', dict(tree='pair', prune_paths=[[0]], twin='lvl1')


BOUNDS = {
    'shapes': sorted(SHAPES) + ['pruning: trees ' + ', '.join(TREES) + ' with every antichain of pruned subtrees (quick: an eighth of them)'],
    'masks': 'pruned-branch level masks 1..7 in every shape; gap masks through siblings; all 49 pairs of sibling masks under a Merkle update '
             '(plain and over ordinary cells, under an ordinary cell, under a Merkle proof) and under an ordinary cell (quick: all pairs for the '
             'update over two pruned branches, a seeded third of the incomparable pairs for the other shapes)',
    'symbolic': 'all ordinary data; the 32-byte hashes and 16-bit depths (<= 1000) stored in pruned branches; Merkle cell payloads; library hashes',
    'routes': 'Cell constructor, Builder(type_=...), BoC round trip (Boc.deserialize_cell exotic path), foreign BoC with stored hashes and depths on every cell',
}
OUTSIDE = ['nesting deeper than three Merkle cells', 'trees of more than 6 cells for the pruning claim',
           'rejection of malformed exotic cells (not part of the property)']
STUBS = ['hashlib.sha256: injective uninterpreted function', 'crc32c not exercised (BoC route without CRC)']
ASSUMPTIONS = ['exotic cell semantics as written in specs/cellspec.py (level-recursive definition)']
