"""Shared pieces of the dictionary harnesses (C09, C10): value kinds, key sets, comparison helpers."""
import itertools
import sys

from sx.api import *
from sx import core as C
from specs.cellspec import *
from specs.enc import *
from specs import dictspec as D
from pytoniq_core.boc import Builder, Cell, Slice, Address
from pytoniq_core.boc.hashmap import HashMap


def hm_mod(name):
    # `pytoniq_core.boc.hashmap` is shadowed by the star import of the sub-module of the same name
    __import__('pytoniq_core.boc.hashmap.' + name)
    return sys.modules['pytoniq_core.boc.hashmap.' + name]


# ------------------------------------------------------------------------------- value kinds
class V:
    refs = 0


class VU(V):
    def __init__(self, w): self.w = w
    def make(self, ctx, n): return ctx.uint(n, self.w)
    def conf(self, hm): return hm.with_uint_values(self.w)
    def enc(self, v): return enc_uint(v, self.w), []
    def deser(self, s): return s.load_uint(self.w)
    def eq(self, a, b): return a == b


class VI(V):
    def __init__(self, w): self.w = w
    def make(self, ctx, n): return ctx.sint(n, self.w)
    def conf(self, hm): return hm.with_int_values(self.w)
    def enc(self, v): return enc_int(v, self.w), []
    def deser(self, s): return s.load_int(self.w)
    def eq(self, a, b): return a == b


class VCoins(V):
    def make(self, ctx, n): return ctx.uint(n, 9)      # each magnitude class is a path (bit_length): 10 classes per value
    def conf(self, hm): return hm.with_coins_values()
    def enc(self, v): return enc_coins(v), []
    def deser(self, s): return s.load_coins()
    def eq(self, a, b): return a == b


class VAddr(V):
    def make(self, ctx, n): return Address((ctx.sint(n + '_wc', 8), ctx.bytes_(n + '_acc', 32)))
    def conf(self, hm): return hm.with_address_values()
    def enc(self, v): return enc_addr_std(v.wc, v.hash_part), []
    def deser(self, s): return s.load_address()
    def eq(self, a, b): return And(a.wc == b.wc, a.hash_part == b.hash_part)


class VCell(V):
    """default serializer: the value cell is stored inline (its bits and references)"""
    def make(self, ctx, n):
        kid = Builder().store_bits(ctx.bitstr(n + '_k', 4)).end_cell()
        return Builder().store_bits(ctx.bitstr(n, 6)).store_ref(kid).end_cell()
    def conf(self, hm): return hm
    def enc(self, v):
        return v.bits.to01(), [SC(ORD, v.refs[0].bits.to01(), [])]
    def deser(self, s): return s
    def eq(self, a, b):
        # a: parsed Slice, b: stored cell
        return And(a.bits.to01() == b.bits.to01(), a.remaining_refs == 1, a.preload_ref().hash == b.refs[0].hash)


def vkind(name):
    if name[0] == 'u': return VU(int(name[1:]))
    if name[0] == 'i': return VI(int(name[1:]))
    if name == 'coins': return VCoins()
    if name == 'addr': return VAddr()
    if name == 'cell': return VCell()
    raise ValueError(name)


def keybits(k, width):
    return format(k, '0%db' % width) if width else ''


def same_structure(rc, sc):
    """library cell rc has the bits, type and references of spec cell sc, recursively"""
    ok = And(rc.bits.to01() == sc.bits, rc.type_ == sc.typ, len(rc.refs) == len(sc.refs))
    if len(rc.refs) == len(sc.refs):
        for r, s in zip(rc.refs, sc.refs):
            ok = And(ok, same_structure(r, s))
    return ok


def key_sets(width, max_keys=None):
    """every non-empty set of keys of the width, as sorted tuples"""
    n = 1 << width
    for mask in range(1, 1 << n):
        ks = tuple(i for i in range(n) if (mask >> i) & 1)
        if max_keys is None or len(ks) <= max_keys:
            yield ks


def orders(ks, seed_i):
    """insertion orders to try for a key set: ascending, descending and one rotation"""
    ks = list(ks)
    out = [ks, ks[::-1]]
    if len(ks) > 2:
        r = seed_i % len(ks)
        out.append(ks[r:] + ks[:r])
    return out
