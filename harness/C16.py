"""C16 - transaction, account and block parsers read exactly what block.tlb specifies.

Engine A on the deserialize methods of tlb/transaction.py, tlb/account.py, tlb/block.py, tlb/config.py fed by the
schema-driven encoder of specs/tlbschema.py (constructors transcribed from block.tlb and linted against the repository's
copy).  Symbolic: every field value over its full range, plus a symbolic tail appended after the value so that over- and
under-reads show as a wrong remainder.  Enumerated: every constructor alternative (forced in turn), presence of optional
fields (seeded), amount length classes, one symbolic Bool flag per instance.
"""
import os
import random
import sys
import zlib

from sx.api import *
from sx import core as C
from specs.cellspec import *
from specs import tlbschema as TS
from specs.tlbschema import S, W, Exp, gen, gen_type, Chooser, amount
from specs.tlbspec import w_cc, w_addr, w_state_init, w_msg_info, message_encodings
from pytoniq_core.boc import Builder, Cell, Slice, Address

import importlib
for _m in ('transaction', 'account', 'block', 'config', 'utils'):
    importlib.import_module('pytoniq_core.tlb.' + _m)      # (`pytoniq_core.tlb.tlb` shadows the package attribute)
TR, AC, BL, CF = (sys.modules['pytoniq_core.tlb.' + m] for m in ('transaction', 'account', 'block', 'config'))

PROPERTY = 'C16'

ENUM = {   # constructor -> the library's type_ string (fieldless constructors: the only thing there is to compare)
    'acst_unchanged': 'unchanged', 'acst_frozen': 'frozen', 'acst_deleted': 'deleted',
    'acc_state_uninit': 'uninitialized', 'acc_state_frozen': 'frozen', 'acc_state_active': 'active', 'acc_state_nonexist': 'nonexist',
    'cskip_no_state': 'no_state', 'cskip_bad_state': 'bad_state', 'cskip_no_gas': 'no_gas', 'cskip_suspended': 'suspended',
}


def same_structure(rc, sc):
    if not isinstance(rc, Cell):
        return False
    ok = And(rc.bits.to01() == sc.bits, rc.type_ == sc.typ, len(rc.refs) == len(sc.refs))
    if len(rc.refs) == len(sc.refs):
        for r, s in zip(rc.refs, sc.refs):
            ok = And(ok, same_structure(r, s))
    return ok


# ------------------------------------------------------------------------------- hooks for kinds outside the plain DSL
def h_cc(ch, w, path):
    g = amount(ch.ctx, ch.name(path), ch.amount_class(path, 15))
    extra = {}
    if ch._h('x' + path) % 4 == 0 and ch.depth < 4:
        extra = {7: amount(ch.ctx, ch.name(path + 'x'), 1)}
    w_cc(w, g, extra)
    return Exp(_cons='currencies', _type='cc', grams=g, _extra=extra)


def h_addr(ch, w, path):
    """addr_std with or without anycast; every other address of an instance names the SAME account as the one before it, with
    its own anycast part (objects shared between parsed addresses would show)"""
    prev = getattr(ch, '_addr', None)
    if prev is not None and ch._h('r' + path) % 2 == 0:
        wc, acc = prev
    else:
        wc, acc = ch.ctx.sint(ch.name(path + 'wc'), 8), ch.ctx.bytes_(ch.name(path + 'acc'), 32)
    ch._addr = (wc, acc)
    d = (0, 5, 0, 30)[ch._h('y' + path) % 4]
    plan = getattr(ch, 'addr_plan', None)
    if plan:
        d = plan.pop(0)
        if prev is not None:
            wc, acc = prev
            ch._addr = prev
    if d:
        pfx = ch.ctx.uint(ch.name(path + 'pfx'), d)
        w_addr(w, ('any', d, pfx, wc, acc))
        return Exp(_cons='addr_std', _type='addr', wc=wc, hash_part=acc, _anycast=(d, pfx))
    w_addr(w, ('std', wc, acc))
    return Exp(_cons='addr_std', _type='addr', wc=wc, hash_part=acc, _anycast=None)


def h_anycell(ch, w, path):
    w.bits(ch.ctx.bitstr(ch.name(path), 9))
    return TS._CELL


def h_state_init(ch, w, path):
    spec = {}
    if ch.present(path + 'sd'):
        spec['split_depth'] = ch.ctx.uint(ch.name(path + 'sd'), 5)
    if ch.present(path + 'code'):
        spec['code'] = SC(ORD, ch.ctx.bitstr(ch.name(path + 'code'), 10), [])
    if ch.present(path + 'data'):
        spec['data'] = SC(ORD, ch.ctx.bitstr(ch.name(path + 'data'), 6), [])
    w_state_init(w, spec)
    return Exp(_cons='state_init', _type='StateInit', split_depth=spec.get('split_depth'), special=None, code=spec.get('code'),
               data=spec.get('data'), library=None)


def h_message(ch, w, path):
    """a small external-in message (the message parser itself is C15's subject)"""
    ctx = ch.ctx
    wc, acc = ctx.sint(ch.name(path + 'wc'), 8), ctx.bytes_(ch.name(path + 'acc'), 32)
    fee = amount(ctx, ch.name(path + 'fee'), 1)
    src = None
    xl = (0, 12, 0, 9)[ch._h('s' + path) % 4]
    if xl:
        src = ('ext', xl, ctx.uint(ch.name(path + 'xsrc'), xl))       # addr_extern of a length that is no multiple of 8
    m = dict(kind='ext_in', src=src, dest=('std', wc, acc), import_fee=fee)
    body = SC(ORD, ctx.bitstr(ch.name(path + 'body'), 12), [])
    enc = message_encodings(m, None, body)[ch._h('e' + path) % 2][2]
    w.bits(enc.bits)
    w.r.extend(enc.refs)
    return Exp(_cons='message', _type='Message', _msg=(wc, acc, fee, body, src))


def h_tr_descr_simple(ch, w, path):
    if ch.depth > 2 and 'TransactionDescr' not in ch.force:
        ch.force['TransactionDescr'] = 1           # trans_storage: ends the recursion through prepare_transaction
    return gen_type(ch, 'TransactionDescr', w, path, HOOKS)


def h_tr_leaf(ch, w, path):
    ch.depth += 2
    e = gen_type(ch, 'Transaction', w, path, HOOKS)
    ch.depth -= 2
    return e


def h_inmsg_leaf(ch, w, path):
    saved = ch.force.get('InMsg')
    ch.force['InMsg'] = (0, 4)[ch._h('l' + path) % 2]
    return gen_type(ch, 'InMsg', w, path, HOOKS)


def h_out_msgs(ch, w, path):
    """out_msgs:(HashmapE 15 ^(Message Any)) with 0..2 entries (keys 0, 1)"""
    from specs import dictspec as D
    n = ch._h('o' + path) % 3 if ch.depth < 3 else 0
    if n == 0:
        w.bits('0')
        return []
    items, exps = [], []
    for i in range(n):
        w2 = W()
        exps.append(h_message(ch, w2, f'{path}{i}'))
        items.append((format(i, '015b'), w2.cell()))
    w.bits('1').ref(D.encode(D.build(items), 15, lambda c: ('', [c])))
    return exps


HOOKS = {'cc': h_cc, 'addr': h_addr, 'anycell': h_anycell, 'StateInit': h_state_init, 'Message': h_message,
         'TransactionDescrSimple': h_tr_descr_simple, 'TransactionLeaf': h_tr_leaf, 'InMsgLeaf': h_inmsg_leaf}


def gen_any(ch, kind, w, path):
    if isinstance(kind, tuple) and kind[0] == 'hme_msgs':
        return h_out_msgs(ch, w, path)
    return gen(ch, kind, w, path, HOOKS)


_orig_gen = TS.gen


def _gen_patched(ch, kind, w, path, hooks):
    if isinstance(kind, tuple) and kind[0] == 'hme_msgs':
        return h_out_msgs(ch, w, path)
    return _orig_gen(ch, kind, w, path, hooks)


TS.gen = _gen_patched
gen = _gen_patched


# ------------------------------------------------------------------------------- generic comparison with library objects
ALIAS = {('ExtBlkRef', 'seq_no'): 'seqno'}            # attribute names that differ from the schema's field names
SKIP = {('CatchainConfig', 'flags'), ('ShardDescr', 'flags')}      # constant fields ({ flags = 0 }) that the library does not expose
NONE_CONS = {'account_none', 'fsm_none'}
MISSING = object()


def hextext(b):
    return C.HexText(b) if isinstance(b, C.SymBytes) else bytes(b).hex()


def field(got, name):
    if isinstance(got, dict):
        return got.get(name, MISSING)
    return getattr(got, name, MISSING)


def match(got, exp, path, out):
    """appends (path, condition) for every leaf; a structural mismatch appends (path, False)"""
    from specs.tlbdecode import WILD
    if exp is WILD:
        return
    if exp is None:
        out.append((path, got is None))
        return
    if isinstance(exp, Exp):
        t, cons = exp['_type'], exp['_cons']
        if cons in NONE_CONS:
            out.append((path, got is None))          # the library represents these field-less constructors by None
            return
        if got is None or got is MISSING:
            out.append((path, False))
            return
        if cons in ENUM:
            out.append((path + '.type_', field(got, 'type_') == ENUM[cons]))
        if t == 'cc':
            out.append((path + '.grams', field(got, 'grams') == exp['grams']))
            d = (field(got, 'other').dict or {}) if field(got, 'other') is not MISSING else MISSING
            ok = d is not MISSING and sorted(d) == sorted(exp['_extra'])
            if ok:
                for k, v in exp['_extra'].items():
                    ok = And(ok, d[k] == v)
            out.append((path + '.other', ok))
            return
        if t == 'addr':
            ok = isinstance(got, Address) and And(got.wc == exp['wc'], got.hash_part == exp['hash_part'])
            if isinstance(got, Address):
                ac = exp.get('_anycast')
                if ac is None:
                    ok = And(ok, got.anycast is None)
                else:
                    ok = And(ok, got.anycast is not None and And(got.anycast.depth == ac[0], got.anycast.rewrite_pfx == ac[1]))
            out.append((path, ok))
            return
        if t == 'Message':
            wc, acc, fee, body, src = exp['_msg']
            ok = isinstance(got, TR.MessageAny) and isinstance(got.info, TR.ExternalMsgInfo)
            if ok:
                from pytoniq_core.boc.address import ExternalAddress
                src_ok = (got.info.src is None) if src is None else (isinstance(got.info.src, ExternalAddress) and
                                                                      And(got.info.src.len == src[1], got.info.src.external_address == src[2]))
                ok = And(src_ok, isinstance(got.info.dest, Address) and And(got.info.dest.wc == wc, got.info.dest.hash_part == acc),
                         got.info.import_fee == fee, got.init is None, same_structure(got.body, body))
            out.append((path, ok))
            return
        if t == 'AccountState':
            # the library flattens the state: type_ + state_hash / state_init
            want = {'account_uninit': 'account_uninit', 'account_active': 'account_active', 'account_frozen': 'account_frozen'}[cons]
            out.append((path + '.type_', field(got, 'type_') == want))
        for k, v in exp.items():
            if k.startswith('_') or (t, k) in SKIP:
                continue
            g = field(got, ALIAS.get((t, k), k))
            if g is MISSING:
                out.append((f'{path}.{k}', False))
                continue
            match(g, v, f'{path}.{k}', out)
        return
    if isinstance(exp, list):
        if not isinstance(got, (list, tuple)) or len(got) != len(exp):
            out.append((path, False))
            return
        for i, (g, e) in enumerate(zip(got, exp)):
            match(g, e, f'{path}[{i}]', out)
        return
    if isinstance(exp, SC):
        out.append((path, same_structure(got, exp)))
        return
    if isinstance(exp, bool):
        out.append((path, got is exp or (isinstance(got, (bool, int)) and not isinstance(got, C.SymInt) and bool(got) == exp and got in (0, 1, True, False))))
        return
    if isinstance(exp, (bytes, C.SymBytes)):
        if isinstance(got, (bytes, C.SymBytes)):
            out.append((path, got == exp))
        elif isinstance(got, (str, C.HexText)):
            out.append((path, got == hextext(exp)))
        elif isinstance(got, (int, C.SymInt)) and not isinstance(got, bool):
            out.append((path, got == uint_of_bits(bits_of_bytes(exp))))
        else:
            out.append((path, False))
        return
    if isinstance(exp, (int, C.SymInt)):
        out.append((path, (got == exp) if isinstance(got, (int, C.SymInt)) and not isinstance(got, bool) else False))
        return
    if isinstance(exp, (str, C.SymBitStr)):
        out.append((path, got.to01() == exp if hasattr(got, 'to01') else got == exp))
        return
    raise ValueError(f'no rule for {type(exp)} at {path}')


PARSERS = {
    'Transaction': lambda s: TR.Transaction.deserialize(s), 'TransactionDescr': lambda s: TR.TransactionDescr.deserialize(s),
    'TrStoragePhase': lambda s: TR.TrStoragePhase.deserialize(s), 'TrCreditPhase': lambda s: TR.TrCreditPhase.deserialize(s),
    'TrComputePhase': lambda s: TR.TrComputePhase.deserialize(s), 'TrActionPhase': lambda s: TR.TrActionPhase.deserialize(s),
    'TrBouncePhase': lambda s: TR.TrBouncePhase.deserialize(s), 'AccStatusChange': lambda s: TR.AccStatusChange.deserialize(s),
    'ComputeSkipReason': lambda s: TR.ComputeSkipReason.deserialize(s), 'SplitMergeInfo': lambda s: TR.SplitMergeInfo.deserialize(s),
    'InMsg': lambda s: TR.InMsg.deserialize(s), 'OutMsg': lambda s: TR.OutMsg.deserialize(s), 'MsgEnvelope': lambda s: TR.MsgEnvelope.deserialize(s),
    'IntermediateAddress': lambda s: TR.IntermediateAddress.deserialize(s), 'ImportFees': lambda s: TR.ImportFees.deserialize(s),
    'Account': lambda s: AC.Account.deserialize(s), 'AccountStorage': lambda s: AC.AccountStorage.deserialize(s), 'AccountState': lambda s: AC.AccountState.deserialize(s),
    'AccountStatus': lambda s: AC.AccountStatus.deserialize(s), 'StorageInfo': lambda s: AC.StorageInfo.deserialize(s), 'StorageUsed': lambda s: AC.StorageUsed.deserialize(s),
    'StorageUsedShort': lambda s: AC.StorageUsedShort.deserialize(s), 'ShardAccount': lambda s: AC.ShardAccount.deserialize(s),
    'ShardIdent': lambda s: BL.ShardIdent.deserialize(s), 'ExtBlkRef': lambda s: BL.ExtBlkRef.deserialize(s), 'GlobalVersion': lambda s: BL.GlobalVersion.deserialize(s),
    'FutureSplitMerge': lambda s: BL.FutureSplitMerge.deserialize(s), 'ShardDescr': lambda s: BL.ShardDescr.deserialize(s), 'ValueFlow': lambda s: BL.ValueFlow.deserialize(s),
    'SigPubKey': lambda s: CF.SigPubKey.deserialize(s), 'ValidatorDescr': lambda s: CF.ValidatorDescr.deserialize(s), 'CatchainConfig': lambda s: CF.CatchainConfig.deserialize(s),
    'HashUpdate': lambda s: sys.modules['pytoniq_core.tlb.utils'].HashUpdate.deserialize(s),
}
SELF_CONTAINED = {'Transaction', 'ValueFlow'}      # parsers that copy/convert the slice: no tail is appended


def h_type(ctx, root, force=None, seed=0, fsel=0, twin=None):
    ch = Chooser(ctx, seed, force, fsel)
    w = W()
    e = gen_type(ch, root, w, root, HOOKS)
    if len(w.b) > 1023:
        # the drawn value does not fit a cell (e.g. shard_descr#b with a split/merge record and two long amounts inline): no such
        # value exists on chain either - nothing to parse
        ctx.require(True, 'drawn value does not fit a cell: instance skipped')
        return
    tail = ctx.bitstr('tail', 5) if root not in SELF_CONTAINED else ''
    extra_ref = SC(ORD, '1011', [])
    nrefs = len(w.r)
    if len(w.b) + len(tail) > 1023:
        tail = ''
    w.bits(tail)
    if nrefs < 4 and tail != '':
        w.ref(extra_ref)
    cell = to_real(warm(w.cell()))
    s = cell.begin_parse()
    got = PARSERS[root](s)
    out = []
    match(got, e, root, out)
    if twin == 'wrong':
        out = [(p, Not(c) if not isinstance(c, bool) else not c) for p, c in out[:1]]
    for p, c in out:
        ctx.require(c, 'field ' + _gen_path(p))
    if tail != '':
        ctx.require(s.bits.to01() == tail, f'{root}: consumes exactly the encoded bits')
        ctx.require(s.remaining_refs == (1 if nrefs < 4 else 0), f'{root}: consumes exactly the encoded references')
    ctx.observe('bits', len(w.b))


def h_two_accounts(ctx, plan):
    """several Account values naming the same account with different anycast parts, parsed one after the other in one process:
    every result has its own anycast, and earlier results do not change"""
    ch = Chooser(ctx, 1, None, 99)
    ch.addr_plan = list(plan)
    ch.depth = 5
    made = []
    for i in range(len(plan)):          # all values are generated before the library is called (a probe of an unfinished path
        w = W()                         # needs every input to exist in the model)
        ch.force['Account'] = 1
        ch.force['AccountState'] = 0
        e = gen_type(ch, 'Account', w, f'acc{i}', HOOKS)
        made.append((to_real(warm(w.cell())), e))
    parsed = []
    for cell, e in made:
        got = AC.Account.deserialize(cell.begin_parse())
        parsed.append((got, e))
        for g, ex in parsed:
            out = []
            match(g, ex, 'Account', out)
            for p, c in out:
                ctx.require(c, 'several values in one process: field ' + _gen_path(p))


def h_blockinfo(ctx, not_master, after_merge, vert_incr, flag0, seed=0, fsel=0):
    """block_info#9bc7a987 ... with its conditional fields: gen_software:flags . 0?GlobalVersion master_ref:not_master?^BlkMasterInfo
    prev_ref:^(BlkPrevInfo after_merge) prev_vert_ref:vert_seqno_incr?^(BlkPrevInfo 0)"""
    ch = Chooser(ctx, seed, None, fsel)
    w = W().bits(TS.tagbits('#9bc7a987'))
    e = {}
    e['version'] = gen(ch, ('u', 32), w, 'version', HOOKS)
    for name, v in (('not_master', not_master), ('after_merge', after_merge)):
        w.u(v, 1)
        e[name] = v
    e['before_split'] = gen(ch, ('u', 1), w, 'before_split', HOOKS)
    e['after_split'] = gen(ch, ('u', 1), w, 'after_split', HOOKS)
    for name in ('want_split', 'want_merge', 'key_block'):
        e[name] = gen(ch, 'bool', w, name, HOOKS)
    w.u(vert_incr, 1)
    e['vert_seqno_incr'] = vert_incr
    w.u(flag0, 8)
    e['flags'] = flag0
    e['seqno'] = gen(ch, ('u', 32), w, 'seq_no', HOOKS)
    vs = ctx.uint('vert_seq_no', 32)
    ctx.assume(vs >= vert_incr)
    w.u(vs, 32)
    e['vert_seqno'] = vs
    e['shard'] = gen_type(ch, 'ShardIdent', w, 'shard', HOOKS)
    for name, n in (('gen_utime', 32), ('start_lt', 64), ('end_lt', 64), ('gen_validator_list_hash_short', 32), ('gen_catchain_seqno', 32),
                    ('min_ref_mc_seqno', 32), ('prev_key_block_seqno', 32)):
        e[name] = gen(ch, ('u', n), w, name, HOOKS)
    e['gen_software'] = gen_type(ch, 'GlobalVersion', w, 'gen_software', HOOKS) if flag0 & 1 else None
    if not_master:
        w2 = W()
        m = gen_type(ch, 'ExtBlkRef', w2, 'master', HOOKS)
        w.ref(w2.cell())
        e['master_ref'] = Exp(_cons='master_info', _type='BlkMasterInfo', master=m)
    else:
        e['master_ref'] = None

    def prev(merge, tag):
        w2 = W()
        if not merge:
            x = Exp(_cons='prev_blk_info', _type='BlkPrevInfo', prev=gen_type(ch, 'ExtBlkRef', w2, tag, HOOKS))
        else:
            a, b = W(), W()
            x = Exp(_cons='prev_blks_info', _type='BlkPrevInfo', prev1=gen_type(ch, 'ExtBlkRef', a, tag + '1', HOOKS),
                    prev2=gen_type(ch, 'ExtBlkRef', b, tag + '2', HOOKS))
            w2.ref(a.cell()).ref(b.cell())
        w.ref(w2.cell())
        return x
    e['prev_ref'] = prev(after_merge, 'prev')
    e['prev_vert_ref'] = prev(0, 'prevvert') if vert_incr else None
    tail = ctx.bitstr('tail', 5)
    w.bits(tail)
    s = to_real(warm(w.cell())).begin_parse()
    got = BL.BlockInfo.deserialize(s)
    out = []
    for k, v in e.items():
        g = field(got, k)
        if g is MISSING:
            out.append((f'BlockInfo.{k}', False))
        else:
            match(g, v, f'BlockInfo.{k}', out)
    for p, c in out:
        ctx.require(c, 'field ' + _gen_path(p))
    ctx.require(And(s.bits.to01() == tail, s.remaining_refs == 0), 'BlockInfo: consumes exactly the encoded bits and references')


def h_vset(ctx, ext, n, addr=False, seed=0):
    """validators#11 ... list:(Hashmap 16 ValidatorDescr)   /   validators_ext#12 ... total_weight:uint64 list:(HashmapE 16 ValidatorDescr)"""
    from specs import dictspec as D
    ch = Chooser(ctx, seed, {'ValidatorDescr': 1 if addr else 0}, 99)
    w = W().u(0x12 if ext else 0x11, 8)
    since, until = ctx.uint('since', 32), ctx.uint('until', 32)
    total, main = ctx.uint('total', 16), ctx.uint('main', 16)
    ctx.assume(And(main <= total, main >= 1))
    w.u(since, 32).u(until, 32).u(total, 16).u(main, 16)
    tw = None
    if ext:
        tw = ctx.uint('total_weight', 64)
        w.u(tw, 64)
    items, exps = [], {}
    for i in range(n):
        ch.force['ValidatorDescr'] = 1 if addr else 0
        wv = W()
        exps[i] = gen_type(ch, 'ValidatorDescr', wv, f'v{i}', HOOKS)
        items.append((format(i, '016b'), wv))
    ctx.known('validators_inline_hashmap', not ext)
    if n:
        root = D.encode(D.build(items), 16, lambda wv: (wv.b, wv.r))
        if ext:
            w.bits('1').ref(root)
        else:
            w.bits(root.bits)
            w.r.extend(root.refs)
    else:
        assert ext
        w.bits('0')
    s = to_real(warm(w.cell())).begin_parse()
    got = CF.ValidatorSet.deserialize(s)
    ctx.require(And(got.utime_since == since, got.utime_until == until, got.total == total, got.main == main), 'ValidatorSet: header fields')
    ctx.require(got.type_ == ('validators_ext' if ext else 'validators'), 'ValidatorSet: constructor')
    ctx.require((got.total_weight == tw) if ext else got.total_weight is None, 'ValidatorSet: total_weight')
    lst = got.list or {}
    ctx.require(sorted(lst) == sorted(exps), 'ValidatorSet: list keys')
    if sorted(lst) == sorted(exps):
        out = []
        for i, e in exps.items():
            match(lst[i], e, f'ValidatorSet.list[{i}]', out)
        for p, c in out:
            ctx.require(c, 'field ' + _gen_path(p))
    ctx.require(And(s.remaining_bits == 0, s.remaining_refs == 0), 'ValidatorSet: consumes exactly the encoded bits and references')


def h_mainnet_block(ctx):
    """the bundled real main-net block (tests/test_cell.py): the header fields the library returns equal what an
    independent reading of block.tlb finds in the same cells (concrete; also validates the specification)"""
    import re
    repo = os.environ.get('SX_REPO', '/repo')
    src = open(os.path.join(repo, 'tests', 'test_cell.py'), encoding='utf-8').read()
    cands = re.findall(r"['\"]([0-9a-fA-F]{2000,})['\"]", src) + re.findall(r"['\"]([A-Za-z0-9+/=]{2000,})['\"]", src)
    found = None
    for c in cands:
        try:
            root = Cell.one_from_boc(c)
            if root.begin_parse().preload_uint(32) == 0x11ef55aa:
                found = root
                break
        except Exception:
            continue
    ctx.require(found is not None, 'main-net block found in tests/test_cell.py')
    if found is None:
        return
    blk = BL.Block.deserialize(found.begin_parse())
    info_cell = found.refs[0]
    if info_cell.type_ != -1:
        info_cell = None
    ctx.require(info_cell is not None, 'block info cell present')
    r = _Reader(info_cell)
    ctx.require(r.u(32) == 0x9bc7a987, 'block_info tag')
    want = {}
    want['version'] = r.u(32)
    for k in ('not_master', 'after_merge', 'before_split', 'after_split'):
        want[k] = r.u(1)
    for k in ('want_split', 'want_merge', 'key_block'):
        want[k] = bool(r.u(1))
    want['vert_seqno_incr'] = r.u(1)
    want['flags'] = r.u(8)
    want['seqno'], want['vert_seqno'] = r.u(32), r.u(32)
    assert r.u(2) == 0
    shard = dict(shard_pfx_bits=r.u(6), workchain_id=r.i(32), shard_prefix=r.u(64))
    for k, n in (('gen_utime', 32), ('start_lt', 64), ('end_lt', 64), ('gen_validator_list_hash_short', 32), ('gen_catchain_seqno', 32),
                 ('min_ref_mc_seqno', 32), ('prev_key_block_seqno', 32)):
        want[k] = r.u(n)
    if want['flags'] & 1:
        assert r.u(8) == 0xc4
        gs = dict(version=r.u(32), capabilities=r.u(64))
    info = blk.info
    bad = [k for k, v in want.items() if getattr(info, k) != v]
    bad += [k for k, v in shard.items() if getattr(info.shard, k) != v]
    if want['flags'] & 1:
        bad += ['gen_software.' + k for k, v in gs.items() if getattr(info.gen_software, k) != v]
    ctx.require(not bad, 'main-net block header fields equal the independent reading ' + str(bad))
    ctx.require(blk.global_id == _Reader(found).skip(32).i(32), 'main-net block global_id')
    ctx.observe('seqno', want['seqno'])
    # --- the rest of the block, read by the independent schema-driven decoder (specs/tlbdecode.py)
    from specs import tlbdecode as TD
    out = []
    match(blk.value_flow, TD.dec_type('ValueFlow', TD.Rd(found.refs[1])), 'Block.value_flow', out)
    ex = TD.Rd(found.refs[3])
    ctx.require(ex.u(32) == 0x4a33f6fd, 'main-net block: block_extra tag')
    counts = {}

    def aug_e(cell, n, leaf, aug):
        r = TD.Rd(cell)
        if r.u(1) == 0:
            return {}, []
        return TD.hashmap(r.ref(), n, leaf, '', aug)

    def cmp_dict(got, want_pair, leaf_match, path):
        d, xs = want_pair
        ok = isinstance(got, tuple) and len(got) == 2 and isinstance(got[0], dict) and sorted(got[0]) == sorted(d)
        out.append((path + '.keys', ok))
        if not ok:
            return
        for k, e in d.items():
            leaf_match(got[0][k], e, f'{path}[]')
        if d:
            out.append((path + '.extras', len(got[1]) == len(xs)))
            if len(got[1]) == len(xs):
                for g, e in zip(got[1], xs):
                    match(g, e, f'{path}.extra[]', out)
        counts[path] = len(d)
    ins = aug_e(ex.ref(), 256, lambda r: TD.dec_type('InMsg', r), lambda r: TD.dec_type('ImportFees', r))
    cmp_dict(blk.extra.in_msg_descr, ins, lambda g, e, p: match(g, e, p, out), 'Block.extra.in_msg_descr')
    outs = aug_e(ex.ref(), 256, lambda r: TD.dec_type('OutMsg', r), TD.dec_cc)
    cmp_dict(blk.extra.out_msg_descr, outs, lambda g, e, p: match(g, e, p, out), 'Block.extra.out_msg_descr')

    def acc_block(r):
        if r.u(4) != 5:
            raise TD.DecodeError('acc_trans tag')
        addr = int(r.take(256), 2).to_bytes(32, 'big')
        trs = TD.hashmap(r, 64, lambda x: TD.dec_type('Transaction', TD.Rd(x.ref())), '', TD.dec_cc)
        hu = TD.dec_type('HashUpdate', TD.Rd(r.ref()))
        return addr, trs, hu

    def acc_match(g, e, p):
        addr, trs, hu = e
        out.append((p + '.account_addr', field(g, 'account_addr') == addr.hex()))
        cmp_dict(field(g, 'transactions'), trs, lambda gg, ee, pp: match(gg, ee, pp, out), p + '.transactions')
        match(field(g, 'state_update'), hu, p + '.state_update', out)
    accs = aug_e(ex.ref(), 256, acc_block, TD.dec_cc)
    cmp_dict(blk.extra.account_blocks, accs, acc_match, 'Block.extra.account_blocks')
    rs, cb = int(ex.take(256), 2).to_bytes(32, 'big'), int(ex.take(256), 2).to_bytes(32, 'big')
    out.append(('Block.extra.rand_seed', blk.extra.rand_seed in (rs, rs.hex())))
    out.append(('Block.extra.created_by', blk.extra.created_by in (cb, cb.hex())))
    if ex.u(1):
        mc = TD.Rd(ex.ref())
        ctx.require(mc.u(16) == 0xcca5, 'main-net block: masterchain_block_extra tag')
        out.append(('Block.extra.custom.key_block', blk.extra.custom.key_block == mc.u(1)))

        def bintree(r):
            if r.u(1) == 0:
                return [TD.dec_type('ShardDescr', r)]
            return bintree(TD.Rd(r.ref())) + bintree(TD.Rd(r.ref()))
        sh = {}
        if mc.u(1):
            sh, _ = TD.hashmap(mc.ref(), 32, lambda r: bintree(TD.Rd(r.ref())))
        got_sh = blk.extra.custom.shard_hashes or {}
        out.append(('Block.extra.custom.shard_hashes.keys', sorted(got_sh) == sorted(sh)))
        if sorted(got_sh) == sorted(sh):
            for wc, leaves in sh.items():
                lst = got_sh[wc].list
                out.append(('Block.extra.custom.shard_hashes[].n', len(lst) == len(leaves)))
                for g, e in zip(lst, leaves):
                    match(g, e, 'Block.extra.custom.shard_hashes[].leaf', out)
        counts['shards'] = sum(len(v) for v in sh.values())
    else:
        out.append(('Block.extra.custom', blk.extra.custom is None))
    bad = sorted({_gen_path(p) for p, c in out if not (c if isinstance(c, bool) else bool(c))})
    ctx.require(not bad, 'main-net block: every field the library returns equals the independent reading ' + str(bad[:8]))
    ctx.require(len(out) > 200, 'main-net block: the comparison covers the block body')
    ctx.observe('compared', [len(out), counts])


class _Reader:
    """independent bit reader over a cell's data"""
    def __init__(self, cell):
        self.b = cell.bits.to01()
        self.p = 0

    def skip(self, n):
        self.p += n
        return self

    def u(self, n):
        v = int(self.b[self.p:self.p + n], 2) if n else 0
        self.p += n
        return v

    def i(self, n):
        v = self.u(n)
        return v - (1 << n) if v >> (n - 1) else v


def _gen_path(p):
    import re
    return re.sub(r'\[\d+\]', '[]', p)


def h_lint(ctx):
    missing = TS.lint(os.environ.get('SX_REPO', '/repo'))
    ctx.require(not missing, 'constructors of the specification occur in block.tlb ' + str(missing[:6]))


def instances(tier, seed):
    yield 'h_lint', dict()
    for plan in ([5, 0], [0, 30, 0], [3, 7], [0, 0, 9]):
        yield 'h_two_accounts', dict(plan=plan)
    yield 'h_mainnet_block', dict()
    for nm in (0, 1):
        for am in (0, 1):
            for vi in (0, 1):
                for f0 in (0, 1):
                    yield 'h_blockinfo', dict(not_master=nm, after_merge=am, vert_incr=vi, flag0=f0, seed=nm + 2 * am, fsel=(nm + am + vi) % 3)
    for ext in (0, 1):
        for n in ((0, 1, 2, 3) if ext else (1, 2, 3)):
            for addr in (False, True):
                yield 'h_vset', dict(ext=ext, n=n, addr=addr)
    yield from container_instances(tier, seed)
    roots = [r for r in PARSERS]
    seeds = (0, 1) if tier == 'quick' else (0, 1, 2, 3, 4, 5)
    done = set()
    for root in roots:
        # every constructor of every type reachable from the root is forced once
        reach = reachable(root)
        for t in reach:
            for ci in range(len(S[t])):
                for sd in (seeds if t == root else seeds[:1] if tier == 'quick' else seeds[:3]):
                    key = (root, t, ci, sd)
                    if key in done:
                        continue
                    done.add(key)
                    force = {t: ci}
                    yield 'h_type', dict(root=root, force=force, seed=sd + seed * 100, fsel=(sd * 3 + ci) % 6)


from harness.C16c import (h_mc_state_extra, h_mc_block_extra, h_account_block, h_block_extra, h_shard_state, h_block,   # noqa
                          container_instances)


PARSERS.update({
    'ValidatorInfo': lambda s: BL.ValidatorInfo.deserialize(s), 'KeyMaxLt': lambda s: BL.KeyMaxLt.deserialize(s),
    'KeyExtBlkRef': lambda s: BL.KeyExtBlkRef.deserialize(s), 'Counters': lambda s: BL.Counters.deserialize(s),
    'CreatorStats': lambda s: BL.CreatorStats.deserialize(s),
})


def reachable(root):
    seen, todo = [], [root]

    def kinds(k):
        if isinstance(k, str):
            k = {'TransactionDescrSimple': 'TransactionDescr', 'TransactionLeaf': 'Transaction', 'InMsgLeaf': 'InMsg'}.get(k, k)
            if k in S:
                yield k
        elif isinstance(k, tuple):
            if k[0] in ('maybe', 'ref'):
                yield from kinds(k[1])
            elif k[0] == 'group':
                for _, kk in k[1]:
                    yield from kinds(kk)
    while todo:
        t = todo.pop()
        if t in seen:
            continue
        seen.append(t)
        for (_, _, fields) in S[t]:
            for _, k in fields:
                for x in kinds(k):
                    if x not in seen and not (root != 'Transaction' and x == 'Transaction' and t != root):
                        todo.append(x)
    if root in ('InMsg', 'OutMsg'):
        seen = [t for t in seen if t in (root, 'MsgEnvelope', 'IntermediateAddress', 'InMsg')]
    return seen


def twins(tier, seed):
    yield 'h_type', dict(root='TrStoragePhase', twin='wrong')


INSTANCE_TIMEOUT = {'quick': 200, 'thorough': 900}
BOUNDS = {
    'types': ', '.join(PARSERS) + ', BlockInfo (16 combinations of its conditional fields), BlkPrevInfo, BlkMasterInfo, ValidatorSet (both constructors, 0..3 validators)',
    'alternatives': 'every constructor of every type reachable from each root is forced once per seed; optional fields present/absent by seed (2 seeds quick, 6 thorough)',
    'values': 'all integer, bit-string and hash fields over their full range; amounts within a seeded length class (0..3, 7 bytes); one symbolic Bool per instance',
    'containers': 'McStateExtra (flags 0/1, 0..2 previous key blocks, both BlockCreateStats constructors with 0..2 entries, 0..2 workchains with BinTree shapes, 1..3 config entries), '
                  'McBlockExtra (key block or not, 0..2 shard-fee entries, 0/2 signatures, recover/mint messages), AccountBlock (1..3 transactions), BlockExtra (0..2 entries per dictionary, with/without custom), '
                  'ShardState (split or not, 0..2 accounts, master_ref, custom), Block; dictionary keys concrete, all leaf values symbolic',
    'remainder': 'a 5-bit symbolic tail and one surplus reference are appended: the parser must leave exactly those',
}
OUTSIDE = ['OutMsgQueueInfo, LibDescr, ShardFees entries beyond their cell, ConfigParam values (kept as cells by the library)', 'messages, state-inits and out-message dictionaries inside the bundled main-net block (compared as opaque; C15 decides the message parser)',
           'messages other than a small external-in one inside transactions (C15 decides the message parser)']
STUBS = ['hashlib.sha256: injective uninterpreted function']
ASSUMPTIONS = ['specs/tlbschema.py transcribes block.tlb (constructor names and tags linted against the repository copy)']
