"""C14 - TL serialisation inverts TL parsing and follows TL framing for the bundled schemas.

Engine A on TlGenerator/TlRegistrator (concrete: the schema files) and TlSchemas.serialize/serialize_field/deserialize,
BlockId/BlockIdExt.  Oracle: specs/tlspec.py (its own parse of the .tl files, its own ids, the TL framing rules).
Symbolic: every integer over its full width, int128/int256 contents, byte-string and ASCII-string contents (after four
concrete leading bytes), vector elements, nested objects' fields.  Enumerated: constructor, flag bits, string-length
profile, vector length, alternative of polymorphic fields.
"""
import itertools
import os
import random
import zlib

from sx.api import *
from sx import core as C
from specs import tlspec

from pytoniq_core.tl.generator import TlGenerator, TlSchemas, TlRegistrator
from pytoniq_core.tl.block import BlockId, BlockIdExt

PROPERTY = 'C14'
REPO = os.environ.get('SX_REPO', '/repo')
SCHEMA_DIR = os.path.join(REPO, 'pytoniq_core', 'tl', 'schemas')

_S = {}


def spec():
    if 's' not in _S:
        _S['s'] = tlspec.Schema(SCHEMA_DIR)
    return _S['s']


class SymLookup(dict):
    """a constructor table that can be asked with a symbolic key (bytes or integer): the answer is decided key by key among
    the entries the symbolic key can equal at all (same length / within its range) - a solver-decided fork per candidate"""
    def _cands(self, key):
        if isinstance(key, C.SymBytes):
            import z3
            n = len(key)
            bv = key.bv()
            fixed = {}
            for i in range(n):            # bytes of the key that are constants (e.g. the zero bytes of a zero-extended value)
                t = z3.simplify(z3.Extract(8 * (n - i) - 1, 8 * (n - i - 1), bv))
                if z3.is_bv_value(t):
                    fixed[i] = t.as_long()
            return [k for k in self if isinstance(k, (bytes, bytearray)) and len(k) == n and all(k[i] == v for i, v in fixed.items())]
        if isinstance(key, C.SymInt):
            ub = C.unsigned_bound(key.e)
            return [k for k in self if isinstance(k, int) and not isinstance(k, bool) and (ub is None or 0 <= k <= ub)]
        return None

    def get(self, key, default=None):
        c = self._cands(key)
        if c is None:
            return dict.get(self, key, default)
        if len(c) > 40:
            raise C.Unmodelled('table lookup with a symbolic key that may equal many entries')
        for k in c:
            if key == k:
                return dict.__getitem__(self, k)
        return default

    def __contains__(self, key):
        return self.get(key, SymLookup) is not SymLookup

    def __getitem__(self, key):
        r = self.get(key, SymLookup)
        if r is SymLookup:
            raise KeyError(key)
        return r


def lib():
    if 'l' not in _S:
        _S['l'] = TlGenerator.with_default_schemas().generate()
        if hasattr(_S['l'], 'id_map') and isinstance(_S['l'].id_map, dict) and C.E() is not None:
            _S['l'].id_map = SymLookup(_S['l'].id_map)
    return _S['l']


def hextext(b):
    return C.HexText(b) if isinstance(b, C.SymBytes) else bytes(b).hex()


PREFIX = b'\x01\x02\x03\x04'       # leading bytes of byte strings: not a registered constructor id (asserted)
SPREFIX = 'abcd'
NESTED = 'tonNode.blockId'


class Gen:
    """builds, for a type, the value handed to the library, the value handed to the specification and a comparator for
    what the parser must return"""
    def __init__(self, ctx, prof, vlen, alt, for_parse=True):
        self.ctx, self.prof, self.vlen, self.alt, self.for_parse = ctx, prof, vlen, alt, for_parse
        self.n = 0
        self.S = spec()

    def name(self, p):
        self.n += 1
        return f'{p}_{self.n}'

    def bytes_value(self, path):
        L = self.prof
        if isinstance(L, str) and L.startswith('utf:'):
            L = 4 + sum(utf_classes(L))
        if L == 'nested':
            c = self.S.cons[NESTED]
            return self.obj(c, path, boxed_type=True)
        if L < 4:
            b = self.ctx.bytes_(self.name(path), L) if L else b''     # shorter than a constructor id: can never be one (symbolic lookups: SymLookup)
        else:
            b = PREFIX + self.ctx.bytes_(self.name(path), L - 4) if L > 4 else PREFIX
        return b, b, lambda got: got == b

    def string_value(self, path):
        if isinstance(self.prof, str) and self.prof.startswith('utf:'):
            # text with multi-byte characters: the framing counts encoded bytes, not characters
            s = self.ctx.unitext(self.name(path), utf_classes(self.prof), prefix=SPREFIX)
            sb = s.encode()
            return s, s, lambda got: (got.encode() if len(got) else b'') == sb if not isinstance(got, (bytes, C.SymBytes)) else False
        L = self.prof if self.prof != 'nested' else 7
        if L < 4:
            s = 'x9~'[:L]
            sb = s.encode()
        else:
            tail = self.ctx.ascii(self.name(path), L - 4) if L > 4 else ''
            sb = SPREFIX.encode() + (tail.encode() if L > 4 else b'')
            s = C.AsciiText(sb) if isinstance(sb, C.SymBytes) else sb.decode()
        return s, s, lambda got: (got.encode() if len(got) else b'') == sb if not isinstance(got, (bytes, C.SymBytes)) else False

    def value(self, t, path, depth=0):
        S = self.S
        k = S.kind(t)
        ctx = self.ctx
        if k[0] == 'base':
            if t == 'int':
                v = ctx.sint(self.name(path), 32)
                return v, v, lambda got: got == v
            if t == 'long':
                v = ctx.sint(self.name(path), 64)
                return v, v, lambda got: got == v
            if t == '#':
                v = ctx.uint(self.name(path), 31)
                return v, v, lambda got: got == v
            if t in ('int128', 'int256'):
                b = ctx.bytes_(self.name(path), 16 if t == 'int128' else 32)
                return hextext(b), b, lambda got: got == hextext(b)
            if t == 'Bool':
                v = ctx.boolean(self.name(path))
                v = bool(v)                           # solver-decided fork: the library needs a real bool
                return v, v, lambda got: got is v
            if t == 'bytes':
                return self.bytes_value(path)
            if t == 'string':
                return self.string_value(path)
        if k[0] == 'vector':
            items = [self.value(k[1], f'{path}{i}', depth + 1) for i in range(self.vlen)]
            ek = S.kind(k[1])

            def cmp(got):
                if not isinstance(got, list) or len(got) != len(items):
                    return False
                return And(*[it[2](g) for it, g in zip(items, got)]) if items else True
            return [it[0] for it in items], [it[1] for it in items], cmp
        if k[0] == 'bare':
            return self.obj(k[1], path, boxed_type=False, depth=depth)
        alts = [c for c in k[1] if S.supported(c, self.for_parse)]
        c = alts[self.alt % len(alts)]
        if depth > 3:
            c = min(alts, key=lambda c: len(c.fields))
        return self.obj(c, path, boxed_type=True, depth=depth)

    def obj(self, c, path, boxed_type, depth=0, flags=None):
        S = self.S
        lv, sv, cmps = {}, {}, {}
        if boxed_type:
            lv['@type'] = c.name
            sv['@type'] = c.name
        flag_fields = {}
        for (fname, ft) in c.fields:
            fl, bit, inner = S.flag_split(ft)
            if fl is not None:
                flag_fields.setdefault(fl, set()).add(bit)
        for (fname, ft) in c.fields:
            fl, bit, inner = S.flag_split(ft)
            if ft == '#' and fname in flag_fields:
                fv = (flags if flags is not None else self.default_flags(c, fname, flag_fields[fname]))
                lv[fname], sv[fname] = fv, fv
                cmps[fname] = (lambda fv: lambda got: got == fv)(fv)
                continue
            if fl is not None and not (sv[fl] >> bit) & 1:
                cmps[fname] = None                     # must be absent
                continue
            a, b, cmpf = self.value(inner, f'{path}.{fname}', depth + 1)
            lv[fname], sv[fname], cmps[fname] = a, b, cmpf

        def cmp(got):
            if not isinstance(got, dict):
                return False
            if boxed_type and got.get('@type') != c.name:
                return False
            ok = True
            for fname, f in cmps.items():
                if f is None:
                    if fname in got:
                        return False
                    continue
                if fname not in got:
                    return False
                ok = And(ok, f(got[fname]))
            if set(got) - set(cmps) - {'@type'}:
                return False
            return ok
        return lv, sv, cmp

    def default_flags(self, c, fname, bits):
        # nested objects: all optional fields present
        v = 0
        for b in bits:
            v |= 1 << b
        return v


def utf_classes(prof):
    """'utf:1,2,3' or 'utf:2*127' -> per-character UTF-8 byte lengths"""
    out = []
    for part in prof[4:].split(','):
        if '*' in part:
            c, n = part.split('*')
            out += [int(c)] * int(n)
        else:
            out.append(int(part))
    return out


# (after the four concrete leading characters) total encoded lengths 6, 10, 9, 253, 254, 255, 253, 254
UTF_PROFILES = ['utf:2', 'utf:1,2,3', 'utf:3,1,1', 'utf:2*124,1', 'utf:2*125', 'utf:3*83,1,1', 'utf:1*246,2,1', 'utf:1*248,2']


def h_cons(ctx, name, flags=None, prof=5, vlen=1, alt=0, twin=None):
    S = spec()
    c = S.cons[name]
    g = Gen(ctx, prof, vlen, alt, S.supported(c, for_parse=True))
    lv, sv, cmp = g.obj(c, 'v', boxed_type=True, flags=flags)
    tl = lib()
    data = tl.serialize(tl.get_by_name(name), lv, boxed=True)
    want = S.enc_obj(c, sv, True)
    if twin == 'be':
        want = c.id + want[4:]
    ctx.require(len(data) == len(want), 'serialised length')
    ctx.require(data == want, 'serialised bytes equal the TL encoding')
    ctx.observe('len', len(data))
    if S.supported(c, for_parse=True):
        got, used = tl.deserialize(data, boxed=True)
        ctx.require(used == len(data), 'parsing consumes exactly all bytes')
        ctx.require(cmp(got), 'parsing returns the same value')
        # also from the specification's bytes (equal if the first obligation holds; independent of it otherwise)
        got2, used2 = tl.deserialize(want, boxed=True)
        ctx.require(And(used2 == len(want), cmp(got2)), 'the TL encoding of the value is parsed to the value')


def h_ids(ctx):
    """constructor ids and argument lists of the registrator equal the independent parse of the schema files"""
    S, tl = spec(), lib()
    bad = []
    for name, c in S.cons.items():
        sch = tl.get_by_name(name)
        if sch is None or sch.id != c.id or list(sch.args.items()) != [(f, t) for f, t in c.fields] or sch.class_name != c.cls:
            bad.append(name)
    ctx.observe('constructors', len(S.cons))
    ctx.require(not bad, 'constructor ids, argument lists and class names equal the schema files [' + ','.join(bad[:5]) + ']')
    ctx.require(PREFIX not in S.ids and PREFIX[::-1] not in S.ids and SPREFIX.encode()[::-1] not in S.ids and SPREFIX.encode() not in S.ids,
                'the concrete byte-string prefixes are not constructor ids')


def h_blockid(ctx, twin=None):
    wc, shard, seqno = ctx.sint('wc', 32), ctx.sint('shard', 64), ctx.sint('seqno', 32)
    rh, fh = ctx.bytes_('root_hash', 32), ctx.bytes_('file_hash', 32)
    b = BlockIdExt(wc, shard, seqno, rh, fh)
    raw = b.to_bytes()
    want = wc.to_bytes(4, 'big', signed=True) + shard.to_bytes(8, 'big', signed=True) + seqno.to_bytes(4, 'big', signed=True) + rh + fh
    ctx.require(raw == want, 'BlockIdExt.to_bytes layout')
    b2 = BlockIdExt.from_bytes(raw)
    same = And(b2.workchain == wc, b2.shard == shard, b2.seqno == seqno, b2.root_hash == rh, b2.file_hash == fh)
    ctx.require(same, 'BlockIdExt bytes round trip')
    d = b.to_dict()
    b3 = BlockIdExt.from_dict(d)
    ctx.require(And(b3.workchain == wc, b3.shard == shard, b3.seqno == seqno, b3.root_hash == rh, b3.file_hash == fh),
                'BlockIdExt dict round trip')
    ctx.require(b == b2 if twin is None else Not(b == b2), 'round-tripped id compares equal')
    i = BlockId(wc, shard, seqno)
    i2 = BlockId.from_dict(i.to_dict())
    ctx.require(And(i2.workchain == wc, i2.shard == shard, i2.seqno == seqno), 'BlockId dict round trip')
    # usable as dictionary keys: needs the real hash() protocol, checked on the concrete witness runs
    if not ctx.symbolic:
        try:
            ok = hash(b) == hash(b2) and len({b: 1, b2: 2}) == 1
        except TypeError:
            ok = False
    else:
        from sx import hook
        hook.RAW_HASH[0] = True
        try:
            h1, h2 = b.__hash__(), b2.__hash__()
        finally:
            hook.RAW_HASH[0] = False
        ok = And(h1 == h2, isinstance(h1, (int, C.SymInt)))
    ctx.known('blockidext_hash_not_int', True)
    ctx.require(ok, 'equal block ids hash equally and are usable as dictionary keys')
    # tl dict form through the TL schema
    tl, S = lib(), spec()
    data = tl.serialize(tl.get_by_name('tonNode.blockIdExt'), dict(d, root_hash=hextext(rh), file_hash=hextext(fh)), boxed=True)
    got, used = tl.deserialize(data)
    b4 = BlockIdExt.from_dict(got)
    ctx.require(And(used == len(data), b4.workchain == wc, b4.shard == shard, b4.seqno == seqno, b4.root_hash == rh, b4.file_hash == fh),
                'BlockIdExt survives TL serialisation')


h_blockid.symkeys = True      # builtin hash() of symbolic bytes is the constant 0 there; real hashing is checked on the witness runs


# ------------------------------------------------------------------------------- instances
def flag_combos(c, S):
    ff = {}
    for (fname, ft) in c.fields:
        fl, bit, inner = S.flag_split(ft)
        if fl is not None:
            ff.setdefault(fl, set()).add(bit)
    if not ff:
        return [None]
    if len(ff) > 1:
        return [None]
    bits = sorted(next(iter(ff.values())))
    combos = []
    for mask in range(1 << len(bits)):
        v = 0
        for i, b in enumerate(bits):
            if (mask >> i) & 1:
                v |= 1 << b
        combos.append(v)
    if len(combos) > 16:
        rnd = random.Random(zlib.crc32(c.name.encode()))
        combos = [combos[0], combos[-1]] + rnd.sample(combos[1:-1], 14)
    free = [b for b in range(0, 30) if b not in bits]
    combos.append(combos[-1] | (1 << free[-1]) | (1 << free[0]))       # unused bits set
    return combos


def has_type(c, S, pred, seen=()):
    if c.name in seen:
        return False
    for (_, ft) in c.fields:
        _, _, inner = S.flag_split(ft)
        if pred(inner):
            return True
        k = S.kind(inner)
        if k and k[0] == 'vector':
            if pred(k[1]):
                return True
            k = S.kind(k[1])
        if k and k[0] == 'bare' and has_type(k[1], S, pred, seen + (c.name,)):
            return True
        if k and k[0] == 'boxed' and any(has_type(x, S, pred, seen + (c.name,)) for x in k[1]):
            return True
    return False


def instances(tier, seed):
    S = spec()
    rnd = random.Random(seed)
    yield 'h_ids', dict()
    yield 'h_blockid', dict()
    names = sorted(n for n, c in S.cons.items() if S.supported(c, for_parse=False))
    for name in names:
        c = S.cons[name]
        strs = has_type(c, S, lambda t: t in ('bytes', 'string'))
        vecs = has_type(c, S, lambda t: t.startswith('(vector'))
        poly = has_type(c, S, lambda t: (S.kind(t) or ('',))[0] == 'boxed' and len(S.kind(t)[1]) > 1)
        combos = flag_combos(c, S)
        interesting = strs or vecs or poly or len(combos) > 1
        if tier == 'quick' and not interesting and zlib.crc32(name.encode()) % 3 != seed % 3:
            continue
        profs = [5]
        if strs:
            profs = [0, 1, 3, 4, 5, 253, 254, 256, 'nested'] if tier == 'quick' else [0, 1, 2, 3, 4, 5, 6, 7, 8, 250, 251, 252, 253, 254, 255, 256, 257, 258, 259, 260, 'nested']
            if tier == 'quick' and zlib.crc32(name.encode()) % 4 != seed % 4:
                profs = [rnd.choice(profs), 254, 5]
        vlens = [1] if not vecs else ([0, 1, 2] if tier == 'quick' else [0, 1, 2, 3])
        alts = [0] if not poly else ([0, 1] if tier == 'quick' else [0, 1, 2, 3])
        todo = []
        for fl in combos:
            todo.append(dict(name=name, flags=fl, prof=5, vlen=1, alt=0))
        if name in ('adnl.message.part', 'overlay.broadcastFec'):
            profs = [p for p in profs if p != 'nested']     # documented: their data field is never auto-parsed
        for p in profs:
            todo.append(dict(name=name, flags=combos[-2] if len(combos) > 1 else None, prof=p, vlen=1, alt=0))
        if has_type(c, S, lambda t: t == 'string'):
            for p in (UTF_PROFILES if tier == 'thorough' or zlib.crc32(name.encode()) % 4 == seed % 4 else [UTF_PROFILES[zlib.crc32(name.encode()) % len(UTF_PROFILES)], 'utf:2*125']):
                todo.append(dict(name=name, flags=combos[-1] if len(combos) > 1 else None, prof=p, vlen=1, alt=0))
        for v in vlens:
            for a in alts:
                todo.append(dict(name=name, flags=combos[-2] if len(combos) > 1 else None, prof=5, vlen=v, alt=a))
        seen = set()
        for t in todo:
            key = repr(sorted(t.items(), key=lambda kv: kv[0]))
            if key not in seen:
                seen.add(key)
                yield 'h_cons', t


def twins(tier, seed):
    yield 'h_cons', dict(name='tonNode.blockIdExt', twin='be')
    yield 'h_blockid', dict(twin='ne')


INSTANCE_TIMEOUT = {'quick': 120, 'thorough': 600}
BOUNDS = {
    'constructors': 'every bundled constructor whose field types are supported (quick: all with strings/vectors/flags/polymorphic fields and a seeded third of the rest)',
    'flags': 'every combination of the flag bits that guard optional fields (at most 16 per constructor) plus one with unused bits set',
    'byte and text strings': 'lengths 0,1,3,4,5,253,254,256 (quick) / 0..8, 250..260 (thorough), contents symbolic after four concrete leading bytes '
                             '(chosen not to be a constructor id), and a nested boxed object inside a bytes field',
    'vectors': 'lengths 0..2 (quick) / 0..3; polymorphic fields: up to 2 / 4 alternatives',
    'integers': 'every value of int (32 bit), long (64 bit), # (31 bit non-negative), int128/int256 contents',
}
OUTSIDE = ['constructors with unsupported field types (int32/int53/int64/double/secureBytes/vector<...> of tonlib_api)',
           'parsing of vectors whose elements are not bare constructors (the parser reads elements as bare constructors only): encoding checked, parsing not demanded',
           'int128/int256 given as bytes objects (the parser returns hex text; hex text is the well-typed value here)',
           'byte strings whose first four bytes are a registered constructor id without being an encoded object', 'characters outside the Basic Multilingual Plane (4-byte UTF-8) and invalid UTF-8 in string fields']
STUBS = []
ASSUMPTIONS = ['specs/tlspec.py: TL framing rules and constructor-id computation (crc32 of the declaration without ; ( ))']
