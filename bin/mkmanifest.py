#!/usr/bin/env python3
"""Regenerates MANIFEST.json from the table below (kept in one place so that the manifest is always valid)."""
import json, os
D = os.path.dirname(os.path.dirname(os.path.abspath(__file__)))
props = [json.loads(l) for l in open(os.path.join(D, 'properties.jsonl'))]
from manifest_table import CLAIMED, NOT_APPLICABLE   # noqa

checks = []
for p in props:
    pid = p['id']
    if pid not in CLAIMED:
        continue
    c = CLAIMED[pid]
    checks.append(dict(
        property_id=pid,
        quick_cmd=f'bin/check {pid} --tier quick',
        thorough_cmd=f'bin/check {pid} --tier thorough',
        evidence_file=f'/verif/evidence/{pid}.json',
        replay_cmd_template='bin/check replay {path}',
        engine='sx',
        level_claimed=dict(category='model_checking', text=c['text'], design_ref=c.get('design_ref', 'DESIGN.md §6 ' + pid)),
        level_note=c['note'],
        technique=c.get('technique', 'bounded symbolic execution of the real source with z3 (SX): solver verdict per path, replay of models on the untouched library'),
    ))
na = [dict(property_id=p['id'], reason=NOT_APPLICABLE.get(p['id'], 'check not built yet in this round (see DESIGN.md §6)'))
      for p in props if p['id'] not in CLAIMED]
man = dict(
    version=1,
    setup_cmd='./setup.sh',
    hooks=dict(guard='PYTONIQ_CORE_VERIF', enable='none needed: the instrumentation is applied by the import hook in /verif/sx/hook.py when a check loads /repo', baseline_off_cmd='cd /repo && /venv/bin/python -m pytest -ra -q -p no:cacheprovider --timeout=900 --continue-on-collection-errors', source_commits=[], add_only=True),
    engines=[dict(name='sx', path='/verif/sx', serves_properties=sorted(CLAIMED), kind_free_text='symbolic execution of the repository\'s Python source on z3-backed values (import hook + bitarray model), DFS path exploration, SMT-decided obligations, concrete replay')],
    checks=checks,
    not_applicable=na,
    notes='All checks are solver-based (z3 5.1 wheel) over the real source loaded from /repo\'s working tree on every run; see DESIGN.md.',
)
json.dump(man, open(os.path.join(D, 'MANIFEST.json'), 'w'), indent=1)
print('claimed', len(checks), 'not_applicable', len(na))
