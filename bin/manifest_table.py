CLAIMED = {
 'C06': dict(
   text='Bounded symbolic execution of the real Builder/Slice/Address code: for every enumerated type sequence (single types at '
        'every boundary width, pairs/triples of a 19-type alphabet, strings, snake chains, all address forms) the solver shows for ALL '
        'values of the symbolic operands that the produced bits equal the TL-B encoding, loads/preloads return the stored values and '
        'nothing is left unread; counterexamples are replayed on the untouched library before being reported.',
   note='Trusted: z3, the SX leaf types and bitarray model (validated per path witness against the real bitarray), the primitive '
        'encodings in specs/enc.py. Structure (widths, lengths, sequence shapes) is enumerated, not symbolic; non-ASCII text and '
        'sequences longer than 3 are outside the claim.'),
 'C18': dict(
   text='Technique B on the loop body sliced from the current source: one real iteration from an arbitrary register state and byte '
        'equals the bitwise CRC step, plus initial value and finalisation: an inductive argument covering inputs of every length, '
        'decided by z3; plus whole-function equivalence on up to 8 (crc16) / 2 (crc32c) fully symbolic bytes.',
   note='Trusted: z3; the bitwise reference definitions (validated on the published check values); the fold-shape recogniser '
        '(if the shape is not recognised only the bounded claim is made and reported in evidence).',
   technique='inductive step lemma over the AST-sliced loop body + bounded symbolic execution, z3 QF_BV'),
}
NOT_APPLICABLE = {}
