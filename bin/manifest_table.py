CLAIMED = {
 'C06': dict(
   text='Bounded symbolic execution of the real Builder/Slice/Address code: for every enumerated type sequence (single types at '
        'every boundary width, pairs/triples of a 19-type alphabet, strings, snake chains, all address forms) the solver shows for ALL '
        'values of the symbolic operands that the produced bits equal the TL-B encoding, loads/preloads return the stored values and '
        'nothing is left unread; counterexamples are replayed on the untouched library before being reported.'
        ' Also snake strings stored into a head cell with 0..8 bits of room, and one account stored three times with different anycast parts (each loaded back with its own; earlier results unchanged).',
   note='Trusted: z3, the SX leaf types and bitarray model (validated per path witness against the real bitarray), the primitive '
        'encodings in specs/enc.py. Structure (widths, lengths, sequence shapes) is enumerated, not symbolic; non-ASCII text and '
        'sequences longer than 3 are outside the claim.'),
 'C18': dict(
   text='Technique B on the loop body sliced from the current source: one real iteration from an arbitrary register state and byte '
        'equals the bitwise CRC step, plus initial value and finalisation: an inductive argument covering inputs of every length, '
        'decided by z3; plus whole-function equivalence on up to 8 (crc16) / 2 (crc32c) fully symbolic bytes.'
        ' Call sequences in one process: both checksums interleaved on the same data, both byte orders, other data in between; long inputs (to 4096 bytes, thorough 65536) in both byte orders.',
   note='Trusted: z3; the bitwise reference definitions (validated on the published check values); the fold-shape recogniser '
        '(if the shape is not recognised only the bounded claim is made and reported in evidence).',
   technique='inductive step lemma over the AST-sliced loop body + bounded symbolic execution, z3 QF_BV'),
 'C07': dict(
   text='Bounded symbolic execution of the real Builder/Slice/TvmBitarray/Cell code: for each store type at the fill levels around its '
        'capacity edge (thorough: every fill level for five types), each reference-adding operation at 0..4 pre-stored references, '
        'chains at depth 1022/1023/1024, and each consuming read at remaining/requested lengths around the boundary (requested length '
        'also as a solver-enumerated symbolic integer), the solver shows for ALL operand values and contents: refused iff it does not fit, '
        'otherwise exactly the encoding is appended / exactly the next bits are returned.'
        ' Absent optional references and empty dictionaries beside 0..4 references (they fit).',
   note='Trusted: z3, SX leaf types and bitarray model (validated per path witness), specs/enc.py. Operation sequences are prefill + '
        'references + one operation; structure is enumerated.'),
 'C01': dict(
   text='Bounded symbolic execution of the real Cell hashing code against an independent level-recursive specification of the TVM cell '
        'representation: for every bit length 0..1023, 0..4 references, a family of DAG shapes (sharing, diamonds, chains to depth 1023) '
        'and 8 construction routes, with ALL data bits symbolic and SHA-256 as an injective uninterpreted function, hash/depth/per-level '
        'values/representation bytes equal the specification; equality, raw __hash__ and dictionary collisions follow the hashes.'
        ' Also: foreign bags whose stored hashes are arbitrary (a returned cell still reports the hash of its contents), a slice that is read on after to_cell(), and pairs of different cells that agree in part of what is hashed (same padded data bytes, same data with other references, prefix) built in one process in both orders.',
   note='Trusted: z3; SHA-256 collision-freeness (as an axiom, instantiated pairwise per path); specs/cellspec.py; the bitarray model '
        '(validated per path witness against the real library, where the real SHA-256 is used). DAG shapes outside the family are not covered.'),
 'C02': dict(
   text='Bounded symbolic execution of the real exotic-cell code against the level-recursive specification: every pruned-branch mask 1..7 '
        'in 11 nesting shapes (up to three nested Merkle proofs, Merkle updates, gap masks through siblings, library cells), three '
        'construction routes, with the stored hashes and depths symbolic; and pruning invariance on four trees with every antichain of '
        'pruned subtrees, alone and under a Merkle proof root.'
        ' Also parsed from foreign bags that store hashes and depths on every cell (gap masks included).',
   note='Trusted: z3; SHA-256 collision-freeness axiom; specs/cellspec.py; the shape grammar bounds (<= 3 Merkle levels, <= 6 cells).'),
 'C03': dict(
   text='Bounded symbolic execution of the real to_boc/Boc parser code: every rooted DAG with <= 3 cells (out-degree <= 3), with 4 cells '
        '(out-degree <= 2), chain/diamond/fan/repeated-reference families, pairs of cells that may be equal (de-duplication explored both '
        'ways), 7 exotic trees, 6 option sets, 3 input encodings x 3 entry points, with ALL cell contents symbolic: the parsed root has the '
        'identical hash and identical structure. Deep chains (to 1023) and 255..257 / 65535..65537-cell boundaries with concrete filler.'
        ' Also: the largest cells (1016..1023 bits with 4 references, as root and inner cell) and the same cell objects serialised inside several bags in different orders.',
   note='Trusted: z3; CRC-32C inside the BoC code replaced by a memoised uninterpreted function (C18 decides the real one); SHA-256 axiom; '
        'text ropes for hex/base64. Larger DAGs with symbolic contents are outside the bound.'),
 'C04': dict(
   text='The bytes emitted by the real to_boc (symbolic contents, same DAG/option enumeration as C03) are decoded by an independent strict '
        'decoder of boc.tlb (specs/bocspec.py); the solver shows for all contents: accepted, flags/widths right, references forward, each '
        'distinct cell exactly once, index = cumulative end offsets (doubled with cache bits), CRC over everything before it, same DAG.'
        ' Also the width boundaries of the header fields (exactly 255/256/257 and 65535..65537 cells; exactly 127..129, 255..257, 32767..32769, 65535..65537 bytes of cell data) and several bags over shared cell objects, each strictly decoded.',
   note='Trusted: z3; specs/bocspec.py as a faithful strict reading of boc.tlb; CRC as uninterpreted function on both sides (span check by congruence).'),
 'C09': dict(
   text='Bounded symbolic execution of the real HashMap/hashmap.utils/hashmap.parse/Slice/Builder code: every non-empty key set of widths 1..3 '
        '(width 4: 150 seeded sets quick / 12 000 seeded sets thorough) in several insertion orders, five parse routes, six value kinds with ALL values symbolic; '
        'two or three fully symbolic keys for small widths and keys symbolic in a bit window for widths 16..1023 (dictionary keys compare symbolically, '
        'the prefix structure is explored by solver-decided forks); signed keys over width+2 bits: the solver shows for all values that the parsed pairs '
        'are exactly the inserted ones in ascending order, independent of insertion order, that the empty map is no cell, and that a key is rejected '
        'exactly when it does not fit.'
        ' Also one map object used over time (serialised, changed through set_int_key / set / the public mapping, serialised again) and optional dictionaries that are not the first reference of their cell.',
   note='Trusted: z3; SX leaf types and bitarray model (validated per path witness); specs/enc.py value encodings; SHA-256 axiom. Maps of more '
        'than 16 keys and fully symbolic wide keys are outside the bound.'),
 'C10': dict(
   text='Bounded symbolic execution of the real hashmap.utils/hashmap.parse code: (a) the real detect_label_type driven with SYMBOLIC label length n and '
        'key size m (all 0<=n<=m<=1023, both values of the all-equal flag) chooses the label kind of the reference node; (b) write_label/deserialize_hml '
        'on symbolic label bits for enumerated (n, m) emit/accept exactly the canonical label and every valid kind; (c) serialize() has the structure and '
        'hash of the canonical Patricia tree of specs/dictspec.py for every key set of widths 1..3 (width 4: 120 seeded sets quick / 15 000 thorough), selected wide sets and symbolic '
        'keys; (d) trees encoded by the specification with every valid label kind per edge and every antichain of pruned sub-trees, plain and augmented '
        '(values and extras symbolic), are decoded to exactly the leaves and extras of the non-pruned part.'
        " Also the canonical cell after changes to a live map (including the owner's mapping passed as map_=) and augmentation values that own references.",
   note='Trusted: z3; specs/dictspec.py (label rule written from the reference node); specs/cellspec.py; bitarray model. Trees of more than 4 leaves '
        'are outside the every-encoding parser check; the order of augmentation values is not demanded (matched by node).'),
 'C12': dict(
   text='Bounded symbolic execution of the real check_block_signatures with Ed25519 verification replaced by an uninterpreted validity predicate: '
        'for 0..4 validators and EVERY signer list of length 0..3 (thorough 0..5) over {each validator, unknown signer} - duplicates and all orders '
        'included - the solver (linear integer arithmetic) shows for ALL 64-bit weights, all truth values of each signature and all block hashes: '
        'accepted exactly when every signature is valid, every signer known, signers pairwise distinct and 3*signed > 2*total; the signed payload '
        'is magic+root_hash+file_hash; node id = sha256(magic+pubkey).'
        " Also call sequences in one process (other signature bytes of free validity, a re-weighted validator set with the same keys) and check_block_signatures through the library's own verify_sign over an idealised Ed25519 with signature fields of 0..160 arbitrary bytes (counterexamples replayed with the real Ed25519).",
   note='Trusted: z3 (LIA); the stub contract of verify_sign (functional; validated on fixed vectors against libsodium through the repo wrapper). '
        'Ed25519 itself and more than 4 validators are outside the claim. int/int true division, if the code uses it, is modelled exactly through '
        'its rounding boundary (sx/zint.py).',
   technique='bounded symbolic execution of the real source with z3 (SX, integer theory): solver verdict per path, replay of models on the untouched library'),
 'C20': dict(
   text='Bounded symbolic execution of the real crypto glue with the primitives as environment stubs under stated contracts. CHANNEL: real '
        'AdnlChannel.__init__/encrypt/decrypt, key-id and AES key/iv derivation with X25519 (uninterpreted, ECDH commutativity), AES-CTR (XOR with an '
        'uninterpreted key stream) and SHA-256 (injective): both peers\' secrets and 32-byte ids symbolic (all three id orderings solver-decided), '
        'plaintexts of 0..64 bytes symbolic, a third key pair opening a channel to the same peer under the same (host, port): each side decrypts exactly '
        'what the other encrypts, packet = key-id || sha256(plaintext) || ciphertext with the key id the peer expects. SIGNATURES: real sign_message / '
        'Client.sign / get_signature / verify_sign over an idealised Ed25519 (one valid signature per (key, message), injective): verifies under the '
        'matching key; fails for every other message (same and other length), every altered signature, every other key. MNEMONICS: real '
        'mnemonic_new / mnemonic_is_valid / mnemonic_to_* with the random draw of one word symbolic (4-index windows at the ends and the middle of the '
        'word list, word positions 0,1,11,23 quick / all 24 thorough), PBKDF2 and key generation uninterpreted: the generated list is valid, validity and '
        'the derived keys are functions of the words, derivation follows the documented composition.',
   note='What the solver decides is the library\'s own code around the primitives (argument order, slicing, word handling, exception handling, caching); '
        'libsodium Ed25519, X25519, AES, PBKDF2/HMAC themselves are NOT verified - they are stubs whose contracts (listed in the evidence) are validated on '
        'fixed vectors against the real primitives, and every counterexample is replayed with the real primitives. Mnemonic bound: only the first candidate '
        'of the generator loop is followed, one symbolic draw per instance.'),
 'C13': dict(
   text='Bounded symbolic execution of the real Address text code (text as typed ropes, base64 as a stub with decode(encode(x))=x): for the raw form '
        'and the 8 friendly variants and ALL workchains -128..127 and 32-byte account ids, parse(render(a)) equals a with the same flags and equal '
        'addresses hash equally; for all 48 character positions x 8 variants and every non-zero 6-bit change of the character the address is rejected. '
        'crc16 inside the address code is an uninterpreted function; the two facts about it that the rejection needs are discharged on the real crc16 '
        'loop body sliced from the current source (technique B: a changed 6-bit group changes the register, differences persist; all lengths).'
        ' Genuine and corrupted texts are offered repeatedly (no verdict may depend on earlier parses); the raw form is run per length class of the workchain text.',
   note='Trusted: z3; the base64/text rope contract; lemma composition (if crc16 loses the fold shape the corruption harness is not run and evidence says so). '
        'Non-canonical base64 text and int() liberalities in the raw form are outside the claim.',
   technique='bounded symbolic execution of the real source with z3 (SX) + inductive step lemmas on the AST-sliced crc16 loop body; replay on the untouched library'),
 'C14': dict(
   text='Bounded symbolic execution of the real TlSchemas.serialize/serialize_field/deserialize and BlockId/BlockIdExt code against specs/tlspec.py (an '
        'independent parse of the bundled .tl files with its own constructor ids and the TL framing rules): for every bundled constructor with supported '
        'field types (740; quick: all with strings/vectors/flags/polymorphic fields plus a seeded third of the rest), every combination of the guarding flag '
        'bits, string lengths 0..8/250..260 (quick: 8 boundary lengths), vector lengths 0..3 and polymorphic alternatives, with ALL integer, int128/int256, '
        'byte-string and text contents symbolic: the bytes equal the TL encoding, deserialize returns the same value and consumes exactly all bytes; '
        'constructor ids/argument lists/class names equal the schema files; BlockIdExt/BlockId conversions are lossless for all field values.'
        ' Text fields with 2- and 3-byte UTF-8 characters around the 253/254-byte framing boundary; byte strings shorter than a constructor id are symbolic and the constructor table answers symbolic keys by solver-decided forks.',
   note='Trusted: z3; specs/tlspec.py. The first four bytes of byte/text strings are concrete (the parser looks every payload up in its constructor table); '
        'strings shorter than 4 bytes are concrete; parsing of vectors of non-bare elements is not demanded; hash()-protocol facts are checked on the '
        'concrete witness runs only.'),
 'C17': dict(
   text='Bounded symbolic execution of the real VmStack/VmStackValue/VmTuple/VmTupleRef/VmCellSlice/VmCont/VmControlData code against the VmStack schema '
        'of block.tlb written out as an encoder: every 257-bit integer (64-bit form exactly when it fits, the other form parsed too), stacks of depth 0..2 '
        'over every value kind (thorough: + 150 triples, depth 40), tuples of length 0..5 nested to depth 3, every VmCont constructor (control data with '
        'nargs/cp present or absent), slices with consumed bits/refs; all integer fields and cell contents symbolic: the cell is the schema encoding, '
        'parse(serialize(v)) equals v in order, serialising twice gives the same cell and leaves the caller\'s list, tuples, slices and builders unmodified; '
        'stacks encoded by the specification are parsed to the values.'
        ' After the caller has changed the first parse result, a second parse still returns the original values.',
   note='Trusted: z3; the schema encoder in harness/C17.py; specs/cellspec.py. Control data holding a stack or a non-empty save list is outside the claim '
        '(serialize and parse use different value forms there); -2^63 may use either integer form.'),
 'C08': dict(
   text='Bounded model checking of an object pool by symbolic execution of the real Cell/Slice/Builder/TvmBitarray (and HashMap, VmStack) code: a cell '
        'obtained by 9 routes (builder, to_cell, plain bit arrays of 0/5/8 bits, TvmBitarray, BoC parsing, slice conversion, copy) with ALL contents '
        'symbolic, then every sequence of 0..1 and a seeded set of sequences of 2 (thorough: all 225, plus triples) operations from a 15-operation alphabet '
        '(consuming/draining/mutating derived slices, builders, copies, the originating builder, parents, other cells, repeated serialisation with '
        'different options, ordering, hashing, dictionaries, VM stacks); after every step the solver shows for all contents that bits, length, references, '
        'children, hash, depth and to_boc under all 8 option sets equal those of an identical twin cell that was only observed (in a different call order).'
        ' Every parameter of to_boc (flags included) is among the observed serialisations, requested in differing orders.',
   note='Trusted: z3; CRC-32C as uninterpreted function; SHA-256 axiom. The technique adds quantification over contents; aliasing itself is structural. '
        'Sequences longer than 3 and multi-threading are outside the claim.',
   technique='bounded model checking of operation sequences by symbolic execution of the real source with z3 (SX); replay on the untouched library'),
 'C05': dict(
   text='Bounded symbolic execution of the real Boc parser (Cell.from_boc) on bytes produced by the strict encoder of specs/bocspec.py with ALL cell contents, '
        'stored hashes and extension bytes symbolic: 6 DAGs x size 1..4 x off_bytes min/2/8 x index/cache bits/CRC (quick: a seeded fifth), other topological '
        'orders, 1..3 roots incl. a root that is not cell 0, stored hashes on cell subsets and on exotic cells, both legacy magics: the returned roots have '
        'exactly the denoted structure and hash. Rejection (any exception) for every truncation length, extension by 1/2/4 symbolic bytes, every single-bit '
        'flip position of CRC-protected input and every reference replaced by ANY backward/self or dangling index.'
        ' Includes the largest serialisable cell (1023 bits, 4 references, level mask 7, stored hashes) at every size width.',
   note='Trusted: z3; specs/bocspec.py; CRC-32C as an uninterpreted function plus the fact that equally long inputs differing in one byte have different CRCs, '
        'which follows (all lengths) from the two step lemmas discharged on the crc32c loop body sliced from the current source. Absent cells, slack inside '
        'cell_data and DAGs of more than 5 cells are outside the claim.',
   technique='bounded symbolic execution of the real source with z3 (SX) + inductive step lemmas on the AST-sliced crc32c loop body; replay on the untouched library'),
 'C15': dict(
   text='Bounded symbolic execution of the real MessageAny/InternalMsgInfo/ExternalMsgInfo/ExternalOutMsgInfo/StateInit/TickTock/CurrencyCollection/'
        'ExtraCurrencyCollection/wallet/NFT/HashUpdate code against specs/tlbspec.py (constructors quoted from block.tlb, linted against the repository copy): '
        'for enumerated header kinds, address forms, Grams length classes, 0..2 extra currencies, 7 state-init shapes, body sizes around the remaining '
        'capacity with 0..4 references, and maximal headers swept across the cell capacity, with ALL addresses, amounts, times, flags and cell contents '
        'symbolic: serialize never fails, the cell is one of the valid block.tlb encodings of the message, deserialize(serialize(m)) = m, and EVERY valid '
        'encoding (either side of each Either) is parsed to m; same for the stand-alone wrappers.',
   note='Trusted: z3; specs/tlbspec.py, specs/dictspec.py, specs/cellspec.py. One Bool flag is symbolic per instance (each symbolic flag doubles the paths). '
        'Headers that cannot fit a cell at all and addr_var are outside the claim.'),
 'C16': dict(
   text='Bounded symbolic execution of the real TL-B parsers (Transaction and its 7 description kinds with all phase variants, Account/ShardAccount/'
        'AccountStorage/AccountState/StorageInfo, InMsg/OutMsg/MsgEnvelope/IntermediateAddress/ImportFees, BlockInfo with all 16 combinations of its '
        'conditional fields, BlkPrevInfo, ExtBlkRef, ShardIdent, GlobalVersion, ValueFlow (both versions), ShardDescr (both), FutureSplitMerge, '
        'ValidatorSet (both constructors, 0..3 validators), ValidatorDescr, SigPubKey, CatchainConfig) on cells produced by the schema-driven encoder of '
        'specs/tlbschema.py (constructors transcribed from block.tlb, names and tags linted against the repository copy): every constructor alternative '
        'forced in turn, optional fields by seed, ALL field values symbolic: every attribute equals the encoded value (unsigned stays unsigned) and exactly '
        'the encoded bits and references are consumed (a symbolic tail and a surplus reference must remain). The header of the bundled main-net block is '
        'compared with an independent bit-level reading.'
        ' Container types too: McStateExtra, McBlockExtra, BlockExtra, AccountBlock, ShardState(Unsplit), Block with generated HashmapAugE/HashmapAug/HashmapE/BinTree contents (0..2 entries, both constructor alternatives where they exist), keys, augmentation values and the exact remainder checked; address fields with and without anycast, the same account repeated.',
   note='Trusted: z3; specs/tlbschema.py and specs/tlbspec.py. Field-less constructors the library represents by None (account_none, fsm_none) and two '
        'attribute aliases (seqno) are accepted as such. McStateExtra/BlockExtra/AccountBlock dictionaries are outside the claim; one Bool is symbolic per instance.'),
 'C11': dict(
   text='Bounded symbolic execution of the real check_proof, check_block_header_proof and check_account_proof (through Cell.from_boc, ShardStateUnsplit.deserialize '
        'and the augmented dictionary parser) with SHA-256 as an injective function: for 4 trees (<= 6 cells, ALL contents symbolic) and EVERY antichain of pruned '
        'sub-trees the proof built by pruning is accepted; rejected are: any other 256-bit expected hash, any change (bits, length, added/dropped/swapped '
        'reference) of an unpruned cell even with an attacker-chosen stored hash, any substituted pruned hash, non-proof roots; 6 trees with inner Merkle '
        'proof/update cells (level-2 pruned branches); shard states with 1..3 accounts under a block with a Merkle update: genuine account state accepted, a '
        'different one, a pruned-branch carrier of the committed hash, another block hash and a tampered state rejected.'
        ' Also check_shard_proof: a masterchain block with a real header and Merkle update, a masterchain state whose McStateExtra lists 1..3 shard blocks in a BinTree; completeness and six rejection scenarios.',
   note='Trusted: z3; the collision-freeness axiom (instantiated pairwise per path); specs/cellspec.py, dictspec.py, bocspec.py. check_shard_proof and trees of '
        'more than 6 cells are outside the claim.'),
 'C19': dict(
   text='Work = source lines of the repository executed per call (line counter under a cap, same instrument in the symbolic run and in the replay). '
        'COUNT-FIELD HALF (symbolic): bounded symbolic execution of the real TlSchemas.deserialize, Cell.from_boc/Boc.deserialize and hashmap.parse '
        'parsers on inputs whose count fields, length prefixes, descriptors and contents are SYMBOLIC: TL inputs = concrete constructor id(s) + up to '
        '~100 symbolic bytes for vectors of every element kind, nested vectors, byte strings with nested objects and every bundled constructor with a '
        'vector field (quick: a seeded quarter); BoC inputs = each magic + 0..9 (thorough ..10) symbolic bytes, well-formed prefixes with symbolic counts '
        'and cells; dictionary inputs = trees of 1..5 cells with all data bits symbolic, key lengths 1..1023: EVERY feasible path (solver-decided forks, '
        'a loop over a symbolic count forks per iteration) finishes within a*len(input)+b lines. DAG HALF (shape enumerated): maximal-sharing families '
        '(double/quadruple/mixed chains, ladders, Fibonacci DAGs) to depth 8 with all contents symbolic, depth 12..24 with a symbolic leaf, depth 32..64 '
        'concrete: hashing, to_boc, from_boc, re-serialisation, copy/slice/hash/depth/order each within a*(n+e)^2+b lines.'
        ' TL: also byte strings holding 2 or 3 objects back to back, nested 3..18 (thorough 24) levels deep.',
   note='Trusted: z3; line counts as a proxy of work (C extensions and byte copies count as one line); the budgets (about 10x the largest path observed on '
        'the repaired tree). NOT decided by the solver: cost as a function of DAG shape - shapes are enumerated families and the deep instances are measured '
        'runs under the engine (stated in evidence). TL constructor ids at positions a template leaves symbolic are assumed unregistered unless they are the '
        'template\'s own constructors.',
   technique='bounded symbolic execution of the real parsers with z3 (SX): every feasible path over symbolic count fields must finish within a line budget; '
             'bounded runs on enumerated sharing DAG families; replay of models on the untouched library under the same counter'),
}
NOT_APPLICABLE = {}
