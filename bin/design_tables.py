#!/usr/bin/env python3
"""Rewrites the generated tables of DESIGN.md (between <!-- BEGIN x --> / <!-- END x --> markers) from
known_findings.json and seeded/*/meta.json, so that the document and the files cannot drift apart."""
import glob
import json
import os
import re

D = os.path.dirname(os.path.dirname(os.path.abspath(__file__)))


def esc(s):
    return str(s).replace('|', '\\|').replace('\n', ' ')


def findings():
    d = json.load(open(os.path.join(D, 'known_findings.json')))
    rows = ['| property | status | /repo commit | what failed (identified by) |', '|---|---|---|---|']
    for e in sorted(d['findings'], key=lambda e: e['property']):
        rows.append(f"| {e['property']} | {e['status']} | {e.get('commit') or '-'} | {esc(e['what'])} (`{e['harness']}` / `{e['class']}`) |")
    return '\n'.join(rows)


def seeded():
    rows = ['| change | written against | needs to manifest (short) | caught by |', '|---|---|---|---|']
    for m in sorted(glob.glob(os.path.join(D, 'seeded', '*', 'meta.json'))):
        name = os.path.basename(os.path.dirname(m))
        e = json.load(open(m))
        need = esc(e.get('needs_short') or e.get('needs_to_manifest', ''))[:260]
        det = esc(e.get('detected_by') if e.get('detected') else 'NOT caught: ' + str(e.get('why_missed', '')))[:300]
        rows.append(f"| {name} | {e['breaks_property']} | {need} | {det} |")
    return '\n'.join(rows)


def main():
    p = os.path.join(D, 'DESIGN.md')
    s = open(p).read()
    for key, fn in (('FINDINGS', findings), ('SEEDED', seeded)):
        pat = re.compile(r'(<!-- BEGIN %s -->\n)(.*?)(<!-- END %s -->)' % (key, key), re.S)
        if not pat.search(s):
            print('marker missing', key)
            continue
        s = pat.sub(lambda m: m.group(1) + fn() + '\n' + m.group(3), s)
    open(p, 'w').write(s)
    print('tables rewritten')


if __name__ == '__main__':
    main()
