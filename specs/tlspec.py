"""TL binary encoding (https://core.telegram.org/mtproto/serialize) driven by an independent parse of the .tl schema files:

    constructor id   crc32 of the declaration without ';' '(' ')' (or the explicit #hex), emitted little-endian when boxed
    int / # / long   4 / 4 / 8 bytes little-endian two's complement
    int128 / int256  16 / 32 raw bytes
    Bool             boolTrue#997275b5 / boolFalse#bc799737 ids, little-endian
    bytes / string   length < 254: 1 length byte, else 0xFE + 3-byte little-endian length; data; zero padding to a multiple of 4
    bare type        fields in order; boxed type (Class name): constructor id + fields
    vector t         4-byte little-endian count + elements (bare: the vector constructor id itself is not emitted)
    flags.N?T        present iff bit N of the earlier field `flags`/`mode` is set

Works on python values and SX symbolic values (integers, byte strings, text)."""
import os
import re
import zlib

from sx.api import *     # noqa
from sx import core as C

BASE = {'Bool', '#', 'int', 'long', 'int128', 'int256', 'string', 'bytes'}
INT_LEN = {'#': 4, 'int': 4, 'long': 8}
BOOL_TRUE = bytes.fromhex('997275b5')[::-1]
BOOL_FALSE = bytes.fromhex('bc799737')[::-1]


class Cons:
    def __init__(self, name, cid, fields, cls, src):
        self.name, self.id, self.fields, self.cls, self.src = name, cid, fields, cls, src

    def __repr__(self):
        return f'<{self.name}#{self.id.hex()}>'


def _decls(path):
    """declarations (joined over lines, comments stripped) of one .tl file"""
    out, cur = [], ''
    with open(path, encoding='utf-8') as f:
        for line in f:
            line = line.split('//')[0].strip()
            if not line or line.startswith('---'):
                continue
            cur = (cur + ' ' + line).strip()
            while ';' in cur:
                d, cur = cur.split(';', 1)
                out.append(' '.join(d.split()))
                cur = cur.strip()
    return out


def _split_fields(body):
    """'a:int b:(vector x) c:flags.0?(vector y)' -> [(a,int),(b,(vector x)),...]; None if not in that form"""
    out, i, n = [], 0, len(body)
    while i < n:
        while i < n and body[i] == ' ':
            i += 1
        if i >= n:
            break
        j = body.find(':', i)
        if j < 0:
            return None
        name = body[i:j]
        if not re.fullmatch(r'[A-Za-z_][A-Za-z0-9_]*', name):
            return None
        k, depth = j + 1, 0
        while k < n and (body[k] != ' ' or depth):
            depth += body[k] == '('
            depth -= body[k] == ')'
            k += 1
        out.append((name, body[j + 1:k]))
        i = k
    return out


def parse_schemas(directory):
    """all constructors of the bundled schema files; later definitions of a name replace earlier ones"""
    cons = {}
    for fn in sorted(os.listdir(directory)):
        if not fn.endswith('.tl'):
            continue
        for d in _decls(os.path.join(directory, fn)):
            if '=' not in d:
                continue
            left, cls = d.rsplit('=', 1)
            left, cls = left.strip(), cls.strip()
            head = left.split(' ', 1)
            name = head[0]
            body = head[1] if len(head) > 1 else ''
            if '#' in name:
                name, hx = name.split('#', 1)
                try:
                    cid = bytes.fromhex(hx.rjust(8, '0'))
                except ValueError:
                    continue
            else:
                text = d.replace('(', '').replace(')', '')
                cid = zlib.crc32(text.encode()).to_bytes(4, 'big')
            fields = _split_fields(body)
            if fields is None or not re.fullmatch(r'[A-Za-z_][A-Za-z0-9_.]*', name):
                continue
            cons[name] = Cons(name, cid, fields, cls, d)
    return cons


class Schema:
    def __init__(self, directory):
        self.cons = parse_schemas(directory)
        self.by_class = {}
        for c in self.cons.values():
            self.by_class.setdefault(c.cls, []).append(c)
        self.ids = {c.id for c in self.cons.values()}
        self._sup = {}

    # ---- which types are supported (recursively)
    def kind(self, t):
        """('base', t) | ('bare', cons) | ('boxed', [cons]) | ('vector', elem) | None"""
        if t in BASE:
            return ('base', t)
        m = re.fullmatch(r'\(vector ([^()]+)\)', t)
        if m:
            return ('vector', m.group(1))
        if t in self.by_class and t not in self.cons:
            return ('boxed', self.by_class[t])
        if t in self.cons:
            return ('bare', self.cons[t])
        return None

    def flag_split(self, t):
        m = re.fullmatch(r'(flags|mode)\.(\d+)\?(.+)', t)
        if m:
            return m.group(1), int(m.group(2)), m.group(3)
        return None, None, t

    def supported_type(self, t, for_parse, stack=()):
        _, _, t = self.flag_split(t)
        k = self.kind(t)
        if k is None:
            return False
        if k[0] == 'base':
            return True
        if k[0] == 'vector':
            ek = self.kind(k[1])
            if ek is None:
                return False
            if for_parse and ek[0] != 'bare':
                return False          # the parser reads vector elements as bare constructors only
            return self.supported_type(k[1], for_parse, stack)
        if k[0] == 'bare':
            return self.supported(k[1], for_parse, stack)
        return any(self.supported(c, for_parse, stack) for c in k[1])

    def supported(self, c, for_parse=True, stack=()):
        key = (c.name, for_parse)
        if key in self._sup:
            return self._sup[key]
        if c.name in stack:
            return False              # recursive types: only through a different alternative
        ok = True
        seen_flags = set()
        for (fname, ft) in c.fields:
            fl, bit, inner = self.flag_split(ft)
            if fl is not None and fl not in seen_flags:
                ok = False
            if ft == '#':
                seen_flags.add(fname)
            if not self.supported_type(ft, for_parse, stack + (c.name,)):
                ok = False
        if not stack:
            self._sup[key] = ok
        return ok

    # ---- encoding
    def enc_bytes(self, b):
        n = len(b)
        head = bytes([n]) if n < 254 else b'\xfe' + n.to_bytes(3, 'little')
        out = head + b if n else head
        pad = (-(len(head) + n)) % 4
        return out + b'\x00' * pad if pad else out

    def enc_type(self, t, v):
        k = self.kind(t)
        if k[0] == 'base':
            if t in INT_LEN:
                return v.to_bytes(INT_LEN[t], 'little', signed=True)
            if t in ('int128', 'int256'):
                return v                      # spec value: the raw bytes
            if t == 'Bool':
                return BOOL_TRUE if v else BOOL_FALSE
            if t == 'bytes':
                if isinstance(v, dict):
                    return self.enc_bytes(self.enc_obj(self.cons[v['@type']], v, True))
                return self.enc_bytes(v)
            if t == 'string':
                return self.enc_bytes(v.encode() if len(v) else b'')
        if k[0] == 'vector':
            out = len(v).to_bytes(4, 'little')
            ek = self.kind(k[1])
            for e in v:
                out = out + self.enc_type(k[1], e)
            return out
        if k[0] == 'bare':
            return self.enc_obj(k[1], v, False)
        return self.enc_obj(self.cons[v['@type']], v, True)

    def enc_obj(self, c, v, boxed):
        out = c.id[::-1] if boxed else b''
        for (fname, ft) in c.fields:
            fl, bit, inner = self.flag_split(ft)
            if fl is not None:
                if not (v[fl] >> bit) & 1:
                    continue
            out = out + self.enc_type(inner, v[fname])
        return out
