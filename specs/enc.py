"""Primitive TL-B encodings written from the specification (block.tlb / TVM whitepaper), independent of the
library's code.  Every function works on python values and on SX symbolic values alike (see sx.api)."""
from sx.api import *   # noqa


def enc_uint(x, n):
    """uintN: n-bit big-endian"""
    return bits_of_uint(x, n)


def enc_int(x, n):
    """intN: n-bit big-endian two's complement"""
    return bits_of_uint(x, n)


def min_len_unsigned(x, max_len):
    """smallest L with 0 <= x < 2^(8L); forks (solver-decided) when x is symbolic"""
    for L in range(0, max_len + 1):
        if x < (1 << (8 * L)):
            return L
    raise OverflowError('value does not fit VarUInteger')


def min_len_signed(x, max_len):
    """smallest L with -2^(8L-1) <= x < 2^(8L-1); L = 0 only for x = 0"""
    if x == 0:
        return 0
    for L in range(1, max_len + 1):
        lo = x >= -(1 << (8 * L - 1))
        hi = x < (1 << (8 * L - 1))
        if lo and hi:
            return L
    raise OverflowError('value does not fit VarInteger')


def enc_var_uint(x, len_bits):
    """VarUInteger n: len:(#< n) value:(uint (len*8)), len minimal; len_bits = bit size of the length field"""
    L = min_len_unsigned(x, (1 << len_bits) - 1)
    return cat_bits(enc_uint(L, len_bits), enc_uint(x, 8 * L))


def enc_var_int(x, len_bits):
    L = min_len_signed(x, (1 << len_bits) - 1)
    return cat_bits(enc_uint(L, len_bits), enc_int(x, 8 * L))


def enc_coins(x):
    return enc_var_uint(x, 4)


def enc_addr_none():
    return '00'


def enc_addr_extern(value, length):
    """addr_extern$01 len:(## 9) external_address:(bits len)"""
    return cat_bits('01', enc_uint(length, 9), enc_uint(value, length))


def enc_addr_std(wc, account, anycast=None):
    """addr_std$10 anycast:(Maybe Anycast) workchain_id:int8 address:bits256;
    anycast_info$_ depth:(#<= 30) { depth >= 1 } rewrite_pfx:(bits depth)"""
    if anycast is None:
        head = '100'
    else:
        depth, pfx = anycast
        head = cat_bits('101', enc_uint(depth, 5), enc_uint(pfx, depth))
    return cat_bits(head, enc_int(wc, 8), bits_of_bytes(account))
