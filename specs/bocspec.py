"""Strict encoder and strict decoder for the TON bag-of-cells container, written from crypto/tl/boc.tlb:

  serialized_boc#b5ee9c72 has_idx:(## 1) has_crc32c:(## 1) has_cache_bits:(## 1) flags:(## 2) { flags = 0 }
    size:(## 3) { size <= 4 } off_bytes:(## 8) { off_bytes <= 8 }
    cells:(##(size * 8)) roots:(##(size * 8)) { roots >= 1 } absent:(##(size * 8)) { roots + absent <= cells }
    tot_cells_size:(##(off_bytes * 8)) root_list:(roots * ##(size * 8))
    index:has_idx?(cells * ##(off_bytes * 8)) cell_data:(tot_cells_size * [ uint8 ]) crc32c:has_crc32c?uint32
  serialized_boc_idx#68ff65f3 size:(## 8) { size <= 4 } off_bytes:(## 8) { off_bytes <= 8 } cells roots { roots = 1 }
    absent { roots + absent <= cells } tot_cells_size index:(cells * ##(off_bytes * 8)) cell_data
  serialized_boc_idx_crc32c#acc3a728  ... the same ... crc32c:uint32

Index entries are the cumulative END offsets of the cells within cell_data (with cache bits: 2*offset + cache bit).
A cell: d1 d2 [hashes (l+1)*32, depths (l+1)*2 when d1 & 16] data refs(size bytes each, each > own index).
Works on python bytes and on SX symbolic bytes; all structural fields must be concrete (they are lengths).
"""
from sx.api import *   # noqa

MAGIC = bytes.fromhex('b5ee9c72')
MAGIC_IDX = bytes.fromhex('68ff65f3')
MAGIC_IDX_CRC = bytes.fromhex('acc3a728')


class BocSpecError(Exception):
    pass


def _need(c, msg):
    if not c:
        raise BocSpecError(msg)


def _be(n, size):
    return int(n).to_bytes(size, 'big')


def _uint(b):
    """unsigned value of (possibly symbolic) bytes; structural fields are required to be concrete"""
    v = uint_of_bits(bits_of_bytes(b)) if len(b) else 0
    return int(v)


def min_bytes(n):
    return max(1, (int(n).bit_length() + 7) // 8)


# ------------------------------------------------------------------------------- encoder
class ECell:
    """cell to encode: bits ('01'/symbolic), exotic flag, level mask, ref indices; optionally stored hashes/depths"""
    def __init__(self, bits, refs, exotic=False, mask=0, hashes=None, depths=None):
        self.bits, self.refs, self.exotic, self.mask = bits, list(refs), exotic, mask
        self.hashes, self.depths = hashes, depths


def cell_payload(c, size, slack=None):
    n = len(c.bits)
    d1 = len(c.refs) + 8 * (1 if c.exotic else 0) + 32 * c.mask + (16 if c.hashes is not None else 0)
    d2 = n // 8 + (n + 7) // 8
    out = bytes([d1, d2])
    if c.hashes is not None:
        for h in c.hashes:
            out = out + h
        for d in c.depths:
            out = out + d.to_bytes(2, 'big')
    bits = c.bits
    if n % 8:
        bits = cat_bits(bits, '1', '0' * (7 - n % 8))
    if n:
        out = out + bytes_of_bits(bits)
    for r in c.refs:
        out = out + _be(r, size)
    return out


def encode(cells, roots=(0,), size=None, off_bytes=None, has_idx=False, has_crc=False, has_cache_bits=False,
           magic='generic', crc_fn=None, cache_bits=None):
    """strict encoder; `cells` in a valid topological order (references point to larger indices)"""
    n = len(cells)
    size = size or min_bytes(n)
    _need(1 <= size <= 4 and n < (1 << (8 * size)), 'size')
    payloads = [cell_payload(c, size) for c in cells]
    tot = sum(len(p) for p in payloads)
    idx_max = tot * (2 if has_cache_bits else 1) + (1 if has_cache_bits else 0)
    off_bytes = off_bytes or min_bytes(idx_max if has_idx or magic != 'generic' else tot)
    _need(1 <= off_bytes <= 8 and idx_max < (1 << (8 * off_bytes)), 'off_bytes')
    if magic == 'generic':
        _need(not has_cache_bits or has_idx, 'cache bits only with an index')
        flags = (128 if has_idx else 0) | (64 if has_crc else 0) | (32 if has_cache_bits else 0) | size
        out = MAGIC + bytes([flags, off_bytes])
    else:
        _need(list(roots) == [0], 'legacy formats have a single root, cell 0')
        has_idx, has_crc = True, magic == 'idx_crc'
        out = (MAGIC_IDX_CRC if has_crc else MAGIC_IDX) + bytes([size, off_bytes])
    out = out + _be(n, size) + _be(len(roots), size) + _be(0, size) + _be(tot, off_bytes)
    if magic == 'generic':
        for r in roots:
            out = out + _be(r, size)
    if has_idx:
        end = 0
        for i, p in enumerate(payloads):
            end += len(p)
            v = end * 2 + (cache_bits[i] if cache_bits else 0) if has_cache_bits else end
            out = out + _be(v, off_bytes)
    for p in payloads:
        out = out + p
    if has_crc:
        out = out + crc_fn(out)
    return out


# ------------------------------------------------------------------------------- strict decoder
def decode(data, crc_fn=None):
    """strict decoder: returns dict(header..., cells=[dict(d1,d2,bits,refs,exotic,mask,hashes,depths)], roots=[...]);
    raises BocSpecError on any deviation from the format"""
    _need(len(data) >= 6, 'too short')
    magic = data[:4]
    h = {}
    pos = 4
    if magic == MAGIC:
        fb = _uint(data[4:5])
        h['has_idx'], h['has_crc'], h['has_cache_bits'] = bool(fb & 128), bool(fb & 64), bool(fb & 32)
        _need((fb >> 3) & 3 == 0, 'flags must be 0')
        size = fb & 7
        h['kind'] = 'generic'
    elif magic == MAGIC_IDX or magic == MAGIC_IDX_CRC:
        size = _uint(data[4:5])
        h['has_idx'], h['has_crc'], h['has_cache_bits'] = True, magic == MAGIC_IDX_CRC, False
        h['kind'] = 'legacy'
    else:
        raise BocSpecError('unknown magic')
    _need(1 <= size <= 4, 'size must be 1..4')
    _need(not h['has_cache_bits'] or h['has_idx'], 'cache bits without index')
    off = _uint(data[5:6])
    _need(1 <= off <= 8, 'off_bytes must be 1..8')
    pos = 6
    _need(len(data) >= pos + 3 * size + off, 'truncated header')
    cells = _uint(data[pos: pos + size]); pos += size
    roots = _uint(data[pos: pos + size]); pos += size
    absent = _uint(data[pos: pos + size]); pos += size
    _need(roots >= 1, 'roots >= 1')
    _need(roots + absent <= cells, 'roots + absent <= cells')
    _need(absent == 0, 'absent cells are outside the claim')
    tot = _uint(data[pos: pos + off]); pos += off
    if h['kind'] == 'generic':
        _need(len(data) >= pos + roots * size, 'truncated root list')
        root_list = [_uint(data[pos + i * size: pos + (i + 1) * size]) for i in range(roots)]
        pos += roots * size
    else:
        _need(roots == 1, 'legacy: one root')
        root_list = [0]
    for r in root_list:
        _need(r < cells, 'root index out of range')
    index = None
    if h['has_idx']:
        _need(len(data) >= pos + cells * off, 'truncated index')
        index = [_uint(data[pos + i * off: pos + (i + 1) * off]) for i in range(cells)]
        pos += cells * off
    _need(len(data) >= pos + tot, 'truncated cell data')
    cd = data[pos: pos + tot]
    body_end = pos + tot
    out_cells = []
    p = 0
    ends = []
    for ci in range(cells):
        _need(p + 2 <= tot, 'truncated cell')
        d1, d2 = _uint(cd[p: p + 1]), _uint(cd[p + 1: p + 2])
        p += 2
        nrefs, exotic, with_hashes, mask = d1 & 7, bool(d1 & 8), bool(d1 & 16), d1 >> 5
        _need(nrefs <= 4, 'at most 4 references')
        c = dict(d1=d1, d2=d2, exotic=exotic, mask=mask, hashes=None, depths=None)
        if with_hashes:
            k = popcount_levels(mask)
            _need(p + 34 * k <= tot, 'truncated stored hashes')
            c['hashes'] = [cd[p + 32 * i: p + 32 * (i + 1)] for i in range(k)]
            p += 32 * k
            c['depths'] = [cd[p + 2 * i: p + 2 * (i + 1)] for i in range(k)]
            p += 2 * k
        nbytes = (d2 + 1) // 2
        _need(p + nbytes + nrefs * size <= tot, 'truncated cell body')
        bits = bits_of_bytes(cd[p: p + nbytes]) if nbytes else ''
        p += nbytes
        if d2 & 1:
            # completion tag: strip the last 1 bit and the zeros after it
            last = bits[-8:]
            k = None
            for j in range(1, 8):
                b = last[8 - j]
                if (b == '1') if isinstance(b, str) else bool(b == '1'):
                    k = j
                    break
            _need(k is not None, 'completion tag missing')
            bits = bits[:len(bits) - k]
        c['bits'] = bits
        refs = []
        for _ in range(nrefs):
            r = _uint(cd[p: p + size]); p += size
            _need(ci < r < cells, 'references must point to later cells')
            refs.append(r)
        c['refs'] = refs
        out_cells.append(c)
        ends.append(p)
    _need(p == tot, 'cell data must be consumed exactly')
    if index is not None:
        for i in range(cells):
            want = ends[i] * 2 if h['has_cache_bits'] else ends[i]
            got = index[i] & ~1 if h['has_cache_bits'] else index[i]
            _need(got == want, f'index entry {i}: cumulative end offset expected {want}, found {got}')
    pos = body_end
    h['crc_ok'] = True
    if h['has_crc']:
        _need(len(data) >= pos + 4, 'truncated crc')
        h['crc_ok'] = data[pos: pos + 4] == crc_fn(data[:pos])
        pos += 4
    _need(len(data) == pos, 'trailing bytes')
    h.update(size=size, off_bytes=off, cells=out_cells, roots=root_list, cells_num=cells, tot=tot, index=index)
    return h


def popcount_levels(mask):
    """number of hashes a cell with this level mask stores: one per significant level"""
    return bin(mask).count('1') + 1
