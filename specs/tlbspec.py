"""A small TL-B writer and the constructors of block.tlb used by C11/C15/C16, written from the schema text (each
constructor quotes its declaration; `lint()` checks that the quoted names and tags occur in the repository's
block.tlb).  Encoders take field values (python or SX symbolic) and produce specification cells (cellspec.SC)."""
import os
import re

from sx.api import *        # noqa
from specs.cellspec import SC, ORD
from specs.enc import *     # noqa


class W:
    """cell writer: bits and references in order"""
    def __init__(self):
        self.b, self.r = '', []

    def bits(self, s):
        self.b = cat_bits(self.b, s)
        return self

    def u(self, v, n):
        return self.bits(enc_uint(v, n))

    def i(self, v, n):
        return self.bits(enc_int(v, n))

    def bool_(self, v):
        return self.bits(enc_uint(Ite(v, 1, 0), 1)) if not isinstance(v, (bool, int)) else self.bits('1' if v else '0')

    def bytes_(self, b):
        return self.bits(bits_of_bytes(b)) if len(b) else self

    def var_uint(self, v, len_bits):
        return self.bits(enc_var_uint(v, len_bits))

    def grams(self, v):
        return self.var_uint(v, 4)

    def ref(self, c):
        self.r.append(c)
        return self

    def inline(self, other):
        """append another writer's bits and references"""
        self.bits(other.b)
        self.r.extend(other.r)
        return self

    def cell(self):
        return SC(ORD, self.b, self.r)

    def nbits(self):
        return len(self.b)


def cell_of(bits, refs=()):
    return SC(ORD, bits, list(refs))


# ------------------------------------------------------------------------------- addresses
def w_addr(w, a):
    """a = None | ('std', wc, acc) | ('ext', nbits, value) | ('any', depth, pfx, wc, acc)"""
    if a is None:
        return w.bits('00')                                      # addr_none$00
    if a[0] == 'std':
        return w.bits(enc_addr_std(a[1], a[2]))                  # addr_std$10 anycast:(Maybe Anycast) workchain_id:int8 address:bits256
    if a[0] == 'any':
        return w.bits(enc_addr_std(a[3], a[4], (a[1], a[2])))
    if a[0] == 'ext':
        return w.bits(enc_addr_extern(a[2], a[1]))               # addr_extern$01 len:(## 9) external_address:(bits len)
    raise ValueError(a)


# ------------------------------------------------------------------------------- currencies
def w_extra(w, d, hm_cell):
    """extra_currencies$_ dict:(HashmapE 32 (VarUInteger 32)) ; hm_cell = specification cell of the dictionary or None"""
    if hm_cell is None:
        return w.bits('0')
    return w.bits('1').ref(hm_cell)


def extra_dict_cell(d):
    """canonical Hashmap 32 (VarUInteger 32) of {currency id: amount}"""
    from specs import dictspec as D
    if not d:
        return None
    items = [(format(k, '032b'), v) for k, v in sorted(d.items())]
    return D.encode(D.build(items), 32, lambda v: (enc_var_uint(v, 5), []))


def w_cc(w, grams, extra=None):
    """currencies$_ grams:Grams other:ExtraCurrencyCollection = CurrencyCollection"""
    w.grams(grams)
    return w_extra(w, extra, extra_dict_cell(extra or {}))


# ------------------------------------------------------------------------------- messages
def w_msg_info(w, m):
    k = m['kind']
    if k == 'int':
        # int_msg_info$0 ihr_disabled:Bool bounce:Bool bounced:Bool src:MsgAddressInt dest:MsgAddressInt
        #   value:CurrencyCollection ihr_fee:Grams fwd_fee:Grams created_lt:uint64 created_at:uint32 = CommonMsgInfo;
        w.bits('0').bool_(m['ihr_disabled']).bool_(m['bounce']).bool_(m['bounced'])
        w_addr(w, m['src'])
        w_addr(w, m['dest'])
        w_cc(w, m['grams'], m.get('extra'))
        w.grams(m['ihr_fee']).grams(m['fwd_fee']).u(m['created_lt'], 64).u(m['created_at'], 32)
    elif k == 'ext_in':
        # ext_in_msg_info$10 src:MsgAddressExt dest:MsgAddressInt import_fee:Grams = CommonMsgInfo;
        w.bits('10')
        w_addr(w, m['src'])
        w_addr(w, m['dest'])
        w.grams(m['import_fee'])
    else:
        # ext_out_msg_info$11 src:MsgAddressInt dest:MsgAddressExt created_lt:uint64 created_at:uint32 = CommonMsgInfo;
        w.bits('11')
        w_addr(w, m['src'])
        w_addr(w, m['dest'])
        w.u(m['created_lt'], 64).u(m['created_at'], 32)
    return w


def w_state_init(w, s):
    """_ split_depth:(Maybe (## 5)) special:(Maybe TickTock) code:(Maybe ^Cell) data:(Maybe ^Cell) library:(Maybe ^Cell) = StateInit;
    tick_tock$_ tick:Bool tock:Bool = TickTock;"""
    if s.get('split_depth') is None:
        w.bits('0')
    else:
        w.bits('1').u(s['split_depth'], 5)
    if s.get('special') is None:
        w.bits('0')
    else:
        w.bits('1').bool_(s['special'][0]).bool_(s['special'][1])
    for k in ('code', 'data', 'library'):
        if s.get(k) is None:
            w.bits('0')
        else:
            w.bits('1').ref(s[k])
    return w


def message_encodings(m, init, body):
    """every valid encoding of  message$_ {X:Type} info:CommonMsgInfo init:(Maybe (Either StateInit ^StateInit))
    body:(Either X ^X) = Message X;  as a list of (init_by_ref, body_by_ref, SC)"""
    out = []
    for init_ref in ((False, True) if init is not None else (None,)):
        for body_ref in (False, True):
            w = w_msg_info(W(), m)
            if init is None:
                w.bits('0')
            else:
                si = w_state_init(W(), init)
                if init_ref:
                    w.bits('11').ref(si.cell())
                else:
                    w.bits('10').inline(si)
            if body_ref:
                w.bits('1').ref(body)
            else:
                w.bits('0').bits(body.bits)
                w.r.extend(body.refs)
            if len(w.b) <= 1023 and len(w.r) <= 4:
                out.append((init_ref, body_ref, w.cell()))
    return out


# ------------------------------------------------------------------------------- lint
QUOTED = [
    'addr_none$00', 'addr_extern$01', 'addr_std$10', 'extra_currencies$_', 'currencies$_', 'int_msg_info$0', 'ext_in_msg_info$10',
    'ext_out_msg_info$11', 'tick_tock$_', 'message$_', 'update_hashes#72',
]


def lint(repo):
    path = os.path.join(repo, 'pytoniq_core', 'tlb', 'schemas', 'block.tlb')
    with open(path, encoding='utf-8') as f:
        text = f.read()
    return [q for q in QUOTED if q not in text]
