"""TVM cell representation, hashes, depths and level masks, written from the specification (TVM whitepaper 3.1,
crypto/vm/cells in the reference node) as a recursion over LEVELS - deliberately not the hash-index loop the
library uses.  Works on python values and on SX symbolic values alike.

    d1 = r + 8*s + 32*l        d2 = floor(b/8) + ceil(b/8)
    repr_i(c) = d1(l_i) d2 . payload_i . depth_i(ref_k)... . hash_i(ref_k)...
    payload_0 = data padded with the completion tag;  payload_i = hash_{i-1}(c) for the next significant level
    Merkle proof / update cells look at their children one level up.
"""
from sx.api import *   # noqa

ORD, PRUNED, LIB, MPROOF, MUPD = -1, 1, 2, 3, 4


def popcount(x):
    return bin(x).count('1')


class SC:
    """specification cell: type, bits ('01' string or symbolic bit string), children"""
    def __init__(self, typ, bits, refs=()):
        self.typ, self.bits, self.refs = typ, bits, list(refs)
        self._memo = {}

    @property
    def mask(self):
        if 'm' not in self._memo:
            for node in topo(self):          # bottom-up, constant stack depth
                if 'm' not in node._memo:
                    node._memo['m'] = node._mask1()
        return self._memo['m']

    def _mask1(self):
        if self.typ == ORD:
            m = 0
            for r in self.refs:
                m |= r._memo['m']
            return m
        if self.typ == PRUNED:
            b = self.bits[8:16]
            assert isinstance(b, str), 'the level mask of a pruned branch is structure, not data'
            return int(b, 2)
        if self.typ == LIB:
            return 0
        if self.typ == MPROOF:
            return self.refs[0]._memo['m'] >> 1
        if self.typ == MUPD:
            return (self.refs[0]._memo['m'] | self.refs[1]._memo['m']) >> 1
        raise ValueError('unknown cell type')

    @property
    def level(self):
        return self.mask.bit_length()


def data_bytes(bits):
    """data padded with the completion tag: a 1 bit then zeros up to a byte boundary (nothing if already aligned)"""
    n = len(bits)
    if n % 8:
        bits = cat_bits(bits, '1', '0' * (7 - n % 8))
    return bytes_of_bits(bits)


def d1d2(c, eff_mask):
    n = len(c.bits)
    d1 = len(c.refs) + 8 * (1 if c.typ != ORD else 0) + 32 * eff_mask
    d2 = n // 8 + (n + 7) // 8
    return bytes([d1, d2])


def _u16(d):
    return d.to_bytes(2, 'big')


def cell_hash(c, lvl):
    """hash of cell c at level lvl (0..3)"""
    key = ('h', lvl)
    if key in c._memo:
        return c._memo[key]
    eff = c.mask & ((1 << lvl) - 1)
    if c.typ == PRUNED:
        idx = popcount(eff)
        if idx != popcount(c.mask):
            db = data_bytes(c.bits)
            r = db[2 + 32 * idx: 2 + 32 * (idx + 1)]
        else:
            r = sha256(d1d2(c, c.mask) + data_bytes(c.bits))
    else:
        r = _hash_eff(c, eff)
    c._memo[key] = r
    return r


def cell_depth(c, lvl):
    key = ('d', lvl)
    if key in c._memo:
        return c._memo[key]
    eff = c.mask & ((1 << lvl) - 1)
    if c.typ == PRUNED:
        idx, tot = popcount(eff), popcount(c.mask)
        if idx != tot:
            db = data_bytes(c.bits)
            off = 2 + 32 * tot + 2 * idx
            r = uint_of_bits(bits_of_bytes(db[off: off + 2]))
        else:
            r = 0
    else:
        r = _depth_eff(c, eff)
    c._memo[key] = r
    return r


def _child_level(c, eff):
    return eff.bit_length() + (1 if c.typ in (MPROOF, MUPD) else 0)


def _hash_eff(c, eff):
    L = eff.bit_length()
    cl = _child_level(c, eff)
    if eff == 0:
        payload = data_bytes(c.bits)
    else:
        payload = _hash_eff(c, eff & ~(1 << (L - 1)))
    pre = d1d2(c, eff) + payload
    for r in c.refs:
        pre = pre + _u16(cell_depth(r, cl))
    for r in c.refs:
        pre = pre + cell_hash(r, cl)
    return sha256(pre)


def _depth_eff(c, eff):
    if not c.refs:
        return 0
    cl = _child_level(c, eff)
    m = None
    for r in c.refs:
        d = cell_depth(r, cl)
        m = d if m is None else Ite(d > m, d, m)
    return m + 1


def representation(c):
    """CellRepr(c) at the cell's own (highest) level"""
    lvl = 3
    eff = c.mask
    pre = d1d2(c, eff) + data_bytes(c.bits)
    cl = _child_level(c, eff) if c.typ != PRUNED else 0
    for r in c.refs:
        pre = pre + _u16(cell_depth(r, cl))
    for r in c.refs:
        pre = pre + cell_hash(r, cl)
    return pre


def topo(c):
    """distinct cells reachable from c, children before parents (iterative: deep chains must not cost stack depth)"""
    out, seen, stack = [], set(), [(c, 0)]
    while stack:
        node, i = stack.pop()
        if i == 0:
            if id(node) in seen:
                continue
            seen.add(id(node))
        if i < len(node.refs):
            stack.append((node, i + 1))
            if id(node.refs[i]) not in seen:
                stack.append((node.refs[i], 0))
        else:
            out.append(node)
    return out


def warm(c):
    """compute all hashes/depths bottom-up so that later calls never recurse deeply"""
    for node in topo(c):
        for lvl in range(4):
            cell_hash(node, lvl)
            cell_depth(node, lvl)
    return c


def to_real(c, memo=None, via='ctor'):
    """build the library's Cell for a specification cell (bottom-up, constant stack depth)"""
    from pytoniq_core.boc import Cell
    from pytoniq_core.boc.tvm_bitarray import TvmBitarray
    from bitarray import bitarray
    memo = {} if memo is None else memo
    for c in topo(c):
        if id(c) in memo:
            continue
        refs = [memo[id(r)] for r in c.refs]
        if via == 'builder':
            from pytoniq_core.boc import Builder
            b = Builder(type_=c.typ)
            if len(c.bits):
                b.store_bits(c.bits)
            for r in refs:
                b.store_ref(r)
            memo[id(c)] = b.end_cell()
        else:
            memo[id(c)] = Cell(TvmBitarray(1023, bitarray(c.bits) if len(c.bits) else bitarray()), refs, c.typ)
    return memo[id(c)]


# ------------------------------------------------------------------------------- constructors for exotic cells
def pruned_bits(mask, hashes, depths):
    """pruned branch: 0x01, mask byte, then the stored hashes (32 bytes each) and depths (2 bytes each)"""
    out = cat_bits('00000001', format(mask, '08b'))
    for h in hashes:
        out = cat_bits(out, bits_of_bytes(h))
    for d in depths:
        out = cat_bits(out, bits_of_uint(d, 16))
    return out


def prune(c, extra_level=1):
    """the pruned branch that replaces subtree c inside a Merkle proof at nesting `extra_level` (1 = directly below one
    Merkle cell): mask = c.mask | 1 << (extra_level-1); stores c's hashes/depths at the significant lower levels"""
    mask = c.mask | (1 << (extra_level - 1))
    hs, ds = [], []
    # significant levels of the new cell below its top: level 0 and every set bit except the highest
    levels = [0] + [i + 1 for i in range(mask.bit_length() - 1) if (mask >> i) & 1]
    levels = levels[:popcount(mask)]
    for lvl in levels:
        hs.append(cell_hash(c, lvl))
        ds.append(cell_depth(c, lvl))
    return SC(PRUNED, pruned_bits(mask, hs, ds), [])


def merkle_proof(c):
    """Merkle proof cell over c: 0x03, then the child's level-0 hash and depth"""
    bits = cat_bits('00000011', bits_of_bytes(cell_hash(c, 0)), bits_of_uint(cell_depth(c, 0), 16))
    return SC(MPROOF, bits, [c])


def merkle_update(a, b):
    bits = cat_bits('00000100', bits_of_bytes(cell_hash(a, 0)), bits_of_bytes(cell_hash(b, 0)),
                    bits_of_uint(cell_depth(a, 0), 16), bits_of_uint(cell_depth(b, 0), 16))
    return SC(MUPD, bits, [a, b])


def library_ref(h):
    return SC(LIB, cat_bits('00000010', bits_of_bytes(h)), [])
