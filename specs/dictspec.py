"""TON Hashmap / HashmapE / HashmapAug (block.tlb, `hm_edge`, `hml_short/long/same`, `hmn_leaf/fork`,
`ahm_edge`, `ahmn_leaf/fork`) written from the schema and the reference node's append_dict_label[_same]:

    hm_edge#_ {n:#} {X:Type} {l:#} {m:#} label:(HmLabel ~l n) {n = (~m) + l} node:(HashmapNode m X)
    hmn_leaf#_ value:X                      hmn_fork#_ left:^(Hashmap n X) right:^(Hashmap n X)
    hml_short$0  len:(Unary ~n) {n <= m} s:(n * Bit)
    hml_long$10  n:(#<= m) s:(n * Bit)
    hml_same$11  v:Bit n:(#<= m)
    ahmn_leaf#_ extra:Y value:X             ahmn_fork#_ left:^ right:^ extra:Y

Canonical label kind (reference node, k = bit length of the remaining key size m, n = label length):
    same  iff all label bits equal, n > 1 and 3+k < 2n+2 (it is then also shorter than long)
    long  iff otherwise k < n
    short otherwise.
Works on python '01' strings and on SX symbolic bit strings (every `if` on a symbolic condition is a solver-decided
fork of the engine)."""
from sx.api import *        # noqa
from specs.cellspec import SC, ORD, PRUNED


class Edge:
    def __init__(self, label, node):
        self.label, self.node = label, node


class Leaf:
    def __init__(self, value, key=None):
        self.value, self.key = value, key


class Fork:
    def __init__(self, left, right):
        self.left, self.right = left, right


class Pruned:
    """a sub-tree replaced by a pruned branch (only below a fork)"""
    def __init__(self, edge):
        self.edge = edge


def _bit_is1(ch):
    r = ch == '1'
    return r if isinstance(r, bool) else bool(r)      # symbolic: engine fork


def common_prefix_len(keys):
    """length of the longest common prefix of a non-empty list of equally long bit strings"""
    n = len(keys[0])
    for i in range(n):
        b0 = _bit_is1(keys[0][i])
        for k in keys[1:]:
            if _bit_is1(k[i]) != b0:
                return i
    return n


def build(items, prefix_done=0):
    """items: list of (key bit string, value) with pairwise distinct keys of equal length; returns the Edge of the
    unique Patricia tree (labels = longest common prefixes, forks on the next bit)"""
    keys = [k for k, _ in items]
    n = common_prefix_len(keys)
    label = keys[0][:n]
    rest = [(k[n:], v) for k, v in items]
    if len(items) == 1:
        return Edge(label, Leaf(items[0][1]))
    left = [(k[1:], v) for k, v in rest if not _bit_is1(k[0])]
    right = [(k[1:], v) for k, v in rest if _bit_is1(k[0])]
    assert left and right
    return Edge(label, Fork(build(left), build(right)))


def all_same(label):
    n = len(label)
    if n <= 1:
        return True
    b0 = _bit_is1(label[0])
    for i in range(1, n):
        if _bit_is1(label[i]) != b0:
            return False
    return True


def canon_kind(label, m):
    n, k = len(label), m.bit_length()
    if n > 1 and 3 + k < 2 * n + 2 and all_same(label):
        return 'same'
    if k < n:
        return 'long'
    return 'short'


def valid_kinds(label, m):
    ks = ['short', 'long']
    if all_same(label):
        ks.append('same')
    return ks


def enc_label(label, m, kind):
    n, k = len(label), m.bit_length()
    assert n <= m
    if kind == 'short':
        return cat_bits('0', '1' * n, '0', label)
    if kind == 'long':
        return cat_bits('10', bits_of_uint(n, k), label)
    if kind == 'same':
        v = label[0] if n else '0'
        return cat_bits('11', v, bits_of_uint(n, k))
    raise ValueError(kind)


def encode(edge, m, value_enc, kind_of=None, extra_enc=None, path=''):
    """specification cell (cellspec.SC) of an edge with remaining key size m.
    value_enc(value) -> (bits, [SC refs]);  kind_of(path, label, m) -> label kind (default canonical);
    extra_enc(node) -> bits of the augmentation value (HashmapAug) or None"""
    if isinstance(edge, Pruned):
        from specs.cellspec import prune
        return prune(encode(edge.edge, m, value_enc, kind_of, extra_enc, path))
    kind = kind_of(path, edge.label, m) if kind_of else canon_kind(edge.label, m)
    bits = enc_label(edge.label, m, kind)
    m2 = m - len(edge.label)
    node = edge.node
    if isinstance(node, Leaf):
        assert m2 == 0
        vb, vrefs = value_enc(node.value)
        if extra_enc is not None:
            bits = cat_bits(bits, extra_enc(node))
        return SC(ORD, cat_bits(bits, vb), vrefs)
    assert m2 >= 1
    l = encode(node.left, m2 - 1, value_enc, kind_of, extra_enc, path + '0')
    r = encode(node.right, m2 - 1, value_enc, kind_of, extra_enc, path + '1')
    if extra_enc is not None:
        bits = cat_bits(bits, extra_enc(node))
    return SC(ORD, bits, [l, r])


def edges(edge, path=''):
    """(path, edge, remaining key size is computed by the caller) for every edge, pre-order"""
    yield path, edge
    e = edge.edge if isinstance(edge, Pruned) else edge
    if isinstance(e.node, Fork):
        yield from edges(e.node.left, path + '0')
        yield from edges(e.node.right, path + '1')


def leaves(edge, prefix='', pruned=False):
    """(full key, Leaf, is inside a pruned sub-tree) in ascending key order"""
    if isinstance(edge, Pruned):
        yield from leaves(edge.edge, prefix, True)
        return
    p = cat_bits(prefix, edge.label)
    if isinstance(edge.node, Leaf):
        yield p, edge.node, pruned
    else:
        yield from leaves(edge.node.left, cat_bits(p, '0'), pruned)
        yield from leaves(edge.node.right, cat_bits(p, '1'), pruned)


def extras_postorder(edge, pruned=False):
    """augmentation nodes in the order the schema lays the tree out when read depth-first: a leaf's own extra; for a
    fork: left sub-tree, right sub-tree, then the fork's extra.  Nodes inside pruned sub-trees are skipped."""
    if isinstance(edge, Pruned):
        return
    if isinstance(edge.node, Leaf):
        yield edge.node
    else:
        yield from extras_postorder(edge.node.left)
        yield from extras_postorder(edge.node.right)
        yield edge.node
