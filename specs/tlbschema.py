"""block.tlb constructors (transcribed from the schema text in the repository) as data, with a generic generator that
draws field values (symbolic leaves), writes the TL-B encoding with specs/tlbspec.W and returns the expectation tree the
library's parsers are compared with.  `lint()` checks every constructor name and tag against the repository's block.tlb.

Field kinds:  ('u', n) ('i', n) ('bits', n) 'bool' 'grams' ('varu', lenbits) 'cc' 'addr' 'anycell'
              ('maybe', K) ('ref', K) ('group', [fields])  = ^[ ... ]      'TypeName'
"""
import os
import re
import zlib

from sx.api import *        # noqa
from specs.cellspec import SC, ORD
from specs.tlbspec import W, w_cc, w_addr, w_state_init, w_msg_info

S = {}


def T(name, *cons):
    S[name] = list(cons)


def C_(name, tag, *fields):
    return (name, tag, list(fields))


def tagbits(tag):
    if tag in ('', '$_', '#_'):
        return ''
    if tag.startswith('$'):
        return tag[1:]
    hx = tag[1:]
    if hx.endswith('_'):
        b = ''.join(format(int(c, 16), '04b') for c in hx[:-1])
        return b[:b.rindex('1')]
    return ''.join(format(int(c, 16), '04b') for c in hx)


G, B, M, R = 'grams', 'bool', (lambda k: ('maybe', k)), (lambda k: ('ref', k))
U, I, BITS = (lambda n: ('u', n)), (lambda n: ('i', n)), (lambda n: ('bits', n))

T('AccStatusChange', C_('acst_unchanged', '$0'), C_('acst_frozen', '$10'), C_('acst_deleted', '$11'))
T('AccountStatus', C_('acc_state_uninit', '$00'), C_('acc_state_frozen', '$01'), C_('acc_state_active', '$10'), C_('acc_state_nonexist', '$11'))
T('ComputeSkipReason', C_('cskip_no_state', '$00'), C_('cskip_bad_state', '$01'), C_('cskip_no_gas', '$10'), C_('cskip_suspended', '$110'))
T('StorageUsedShort', C_('storage_used_short', '$_', ('cells', ('varu', 3)), ('bits', ('varu', 3))))
T('StorageUsed', C_('storage_used', '$_', ('cells', ('varu', 3)), ('bits', ('varu', 3)), ('public_cells', ('varu', 3))))
T('StorageInfo', C_('storage_info', '$_', ('used', 'StorageUsed'), ('last_paid', U(32)), ('due_payment', M(G))))
T('TrStoragePhase', C_('tr_phase_storage', '$_', ('storage_fees_collected', G), ('storage_fees_due', M(G)), ('status_change', 'AccStatusChange')))
T('TrCreditPhase', C_('tr_phase_credit', '$_', ('due_fees_collected', M(G)), ('credit', 'cc')))
T('TrComputePhase',
  C_('tr_phase_compute_skipped', '$0', ('reason', 'ComputeSkipReason')),
  C_('tr_phase_compute_vm', '$1', ('success', B), ('msg_state_used', B), ('account_activated', B), ('gas_fees', G),
     ('_g', ('group', [('gas_used', ('varu', 3)), ('gas_limit', ('varu', 3)), ('gas_credit', M(('varu', 2))), ('mode', I(8)), ('exit_code', I(32)),
                       ('exit_arg', M(I(32))), ('vm_steps', U(32)), ('vm_init_state_hash', BITS(256)), ('vm_final_state_hash', BITS(256))]))))
T('TrActionPhase', C_('tr_phase_action', '$_', ('success', B), ('valid', B), ('no_funds', B), ('status_change', 'AccStatusChange'),
                      ('total_fwd_fees', M(G)), ('total_action_fees', M(G)), ('result_code', I(32)), ('result_arg', M(I(32))),
                      ('tot_actions', U(16)), ('spec_actions', U(16)), ('skipped_actions', U(16)), ('msgs_created', U(16)),
                      ('action_list_hash', BITS(256)), ('tot_msg_size', 'StorageUsedShort')))
T('TrBouncePhase', C_('tr_phase_bounce_negfunds', '$00'),
  C_('tr_phase_bounce_nofunds', '$01', ('msg_size', 'StorageUsedShort'), ('req_fwd_fees', G)),
  C_('tr_phase_bounce_ok', '$1', ('msg_size', 'StorageUsedShort'), ('msg_fees', G), ('fwd_fees', G)))
T('SplitMergeInfo', C_('split_merge_info', '$_', ('cur_shard_pfx_len', U(6)), ('acc_split_depth', U(6)), ('this_addr', BITS(256)), ('sibling_addr', BITS(256))))
T('TransactionDescr',
  C_('trans_ord', '$0000', ('credit_first', B), ('storage_ph', M('TrStoragePhase')), ('credit_ph', M('TrCreditPhase')), ('compute_ph', 'TrComputePhase'),
     ('action', M(R('TrActionPhase'))), ('aborted', B), ('bounce', M('TrBouncePhase')), ('destroyed', B)),
  C_('trans_storage', '$0001', ('storage_ph', 'TrStoragePhase')),
  C_('trans_tick_tock', '$001', ('is_tock', B), ('storage_ph', 'TrStoragePhase'), ('compute_ph', 'TrComputePhase'), ('action', M(R('TrActionPhase'))),
     ('aborted', B), ('destroyed', B)),
  C_('trans_split_prepare', '$0100', ('split_info', 'SplitMergeInfo'), ('storage_ph', M('TrStoragePhase')), ('compute_ph', 'TrComputePhase'),
     ('action', M(R('TrActionPhase'))), ('aborted', B), ('destroyed', B)),
  C_('trans_split_install', '$0101', ('split_info', 'SplitMergeInfo'), ('prepare_transaction', R('Transaction')), ('installed', B)),
  C_('trans_merge_prepare', '$0110', ('split_info', 'SplitMergeInfo'), ('storage_ph', 'TrStoragePhase'), ('aborted', B)),
  C_('trans_merge_install', '$0111', ('split_info', 'SplitMergeInfo'), ('prepare_transaction', R('Transaction')), ('storage_ph', M('TrStoragePhase')),
     ('credit_ph', M('TrCreditPhase')), ('compute_ph', 'TrComputePhase'), ('action', M(R('TrActionPhase'))), ('aborted', B), ('destroyed', B)))
T('HashUpdate', C_('update_hashes', '#72', ('old_hash', BITS(256)), ('new_hash', BITS(256))))
T('Transaction', C_('transaction', '$0111', ('account_addr', BITS(256)), ('lt', U(64)), ('prev_trans_hash', BITS(256)), ('prev_trans_lt', U(64)), ('now', U(32)),
                    ('outmsg_cnt', U(15)), ('orig_status', 'AccountStatus'), ('end_status', 'AccountStatus'),
                    ('_g', ('group', [('in_msg', M(R('Message'))), ('out_msgs', ('hme_msgs', 15))])),
                    ('total_fees', 'cc'), ('state_update', R('HashUpdate')), ('description', R('TransactionDescrSimple'))))
T('AccountState', C_('account_uninit', '$00'), C_('account_active', '$1', ('state_init', 'StateInit')), C_('account_frozen', '$01', ('state_hash', BITS(256))))
T('AccountStorage', C_('account_storage', '$_', ('last_trans_lt', U(64)), ('balance', 'cc'), ('state', 'AccountState')))
T('Account', C_('account_none', '$0'), C_('account', '$1', ('addr', 'addr'), ('storage_stat', 'StorageInfo'), ('storage', 'AccountStorage')))
T('ShardAccount', C_('account_descr', '$_', ('account', R('Account')), ('last_trans_hash', BITS(256)), ('last_trans_lt', U(64))))
T('IntermediateAddress', C_('interm_addr_regular', '$0', ('use_dest_bits', U(7))), C_('interm_addr_simple', '$10', ('workchain_id', I(8)), ('addr_pfx', U(64))),
  C_('interm_addr_ext', '$11', ('workchain_id', I(32)), ('addr_pfx', U(64))))
T('MsgEnvelope', C_('msg_envelope', '#4', ('cur_addr', 'IntermediateAddress'), ('next_addr', 'IntermediateAddress'), ('fwd_fee_remaining', G), ('msg', R('Message'))))
T('ImportFees', C_('import_fees', '$_', ('fees_collected', G), ('value_imported', 'cc')))
T('InMsg',
  C_('msg_import_ext', '$000', ('msg', R('Message')), ('transaction', R('TransactionLeaf'))),
  C_('msg_import_ihr', '$010', ('msg', R('Message')), ('transaction', R('TransactionLeaf')), ('ihr_fee', G), ('proof_created', R('anycell'))),
  C_('msg_import_imm', '$011', ('in_msg', R('MsgEnvelope')), ('transaction', R('TransactionLeaf')), ('fwd_fee', G)),
  C_('msg_import_fin', '$100', ('in_msg', R('MsgEnvelope')), ('transaction', R('TransactionLeaf')), ('fwd_fee', G)),
  C_('msg_import_tr', '$101', ('in_msg', R('MsgEnvelope')), ('out_msg', R('MsgEnvelope')), ('transit_fee', G)),
  C_('msg_discard_fin', '$110', ('in_msg', R('MsgEnvelope')), ('transaction_id', U(64)), ('fwd_fee', G)),
  C_('msg_discard_tr', '$111', ('in_msg', R('MsgEnvelope')), ('transaction_id', U(64)), ('fwd_fee', G), ('proof_delivered', R('anycell'))))
T('OutMsg',
  C_('msg_export_ext', '$000', ('msg', R('Message')), ('transaction', R('TransactionLeaf'))),
  C_('msg_export_imm', '$010', ('out_msg', R('MsgEnvelope')), ('transaction', R('TransactionLeaf')), ('reimport', R('InMsgLeaf'))),
  C_('msg_export_new', '$001', ('out_msg', R('MsgEnvelope')), ('transaction', R('TransactionLeaf'))),
  C_('msg_export_tr', '$011', ('out_msg', R('MsgEnvelope')), ('imported', R('InMsgLeaf'))),
  C_('msg_export_deq', '$1100', ('out_msg', R('MsgEnvelope')), ('import_block_lt', U(63))),
  C_('msg_export_deq_short', '$1101', ('msg_env_hash', BITS(256)), ('next_workchain', I(32)), ('next_addr_pfx', U(64)), ('import_block_lt', U(64))),
  C_('msg_export_tr_req', '$111', ('out_msg', R('MsgEnvelope')), ('imported', R('InMsgLeaf'))),
  C_('msg_export_deq_imm', '$100', ('out_msg', R('MsgEnvelope')), ('reimport', R('InMsgLeaf'))))
T('ShardIdent', C_('shard_ident', '$00', ('shard_pfx_bits', U(6)), ('workchain_id', I(32)), ('shard_prefix', U(64))))
T('ExtBlkRef', C_('ext_blk_ref', '$_', ('end_lt', U(64)), ('seq_no', U(32)), ('root_hash', BITS(256)), ('file_hash', BITS(256))))
T('GlobalVersion', C_('capabilities', '#c4', ('version', U(32)), ('capabilities', U(64))))
T('FutureSplitMerge', C_('fsm_none', '$0'), C_('fsm_split', '$10', ('split_utime', U(32)), ('interval', U(32))), C_('fsm_merge', '$11', ('merge_utime', U(32)), ('interval', U(32))))
_SD = [('seq_no', U(32)), ('reg_mc_seqno', U(32)), ('start_lt', U(64)), ('end_lt', U(64)), ('root_hash', BITS(256)), ('file_hash', BITS(256)),
       ('before_split', B), ('before_merge', B), ('want_split', B), ('want_merge', B), ('nx_cc_updated', B), ('flags', ('const', 0, 3)),
       ('next_catchain_seqno', U(32)), ('next_validator_shard', U(64)), ('min_ref_mc_seqno', U(32)), ('gen_utime', U(32)), ('split_merge_at', 'FutureSplitMerge')]
T('ShardDescr', C_('shard_descr', '#b', *_SD, ('fees_collected', 'cc'), ('funds_created', 'cc')),
  C_('shard_descr_new', '#a', *_SD, ('_g', ('group', [('fees_collected', 'cc'), ('funds_created', 'cc')]))))
_VF1 = ('_g1', ('group', [('from_prev_blk', 'cc'), ('to_next_blk', 'cc'), ('imported', 'cc'), ('exported', 'cc')]))
_VF2 = ('_g2', ('group', [('fees_imported', 'cc'), ('recovered', 'cc'), ('created', 'cc'), ('minted', 'cc')]))
T('ValueFlow', C_('value_flow', '#b8e48dfb', _VF1, ('fees_collected', 'cc'), _VF2),
  C_('value_flow_v2', '#3ebf98b7', _VF1, ('fees_collected', 'cc'), ('burned', 'cc'), _VF2))
T('SigPubKey', C_('ed25519_pubkey', '#8e81278a', ('pubkey', BITS(256))))
T('ValidatorDescr', C_('validator', '#53', ('public_key', 'SigPubKey'), ('weight', U(64))),
  C_('validator_addr', '#73', ('public_key', 'SigPubKey'), ('weight', U(64)), ('adnl_addr', BITS(256))))
T('CatchainConfig', C_('catchain_config', '#c1', ('mc_catchain_lifetime', U(32)), ('shard_catchain_lifetime', U(32)), ('shard_validators_lifetime', U(32)), ('shard_validators_num', U(32))),
  C_('catchain_config_new', '#c2', ('flags', ('const', 0, 7)), ('shuffle_mc_validators', B), ('mc_catchain_lifetime', U(32)), ('shard_catchain_lifetime', U(32)),
     ('shard_validators_lifetime', U(32)), ('shard_validators_num', U(32))))


def lint(repo):
    """constructor names + tags that do not occur in the repository's block.tlb"""
    path = os.path.join(repo, 'pytoniq_core', 'tlb', 'schemas', 'block.tlb')
    with open(path, encoding='utf-8') as f:
        text = f.read()
    missing = []
    for tname, cons in S.items():
        for (name, tag, fields) in cons:
            if not re.search(re.escape(name + (tag if tag not in ('', ) else '')) + r'(\s|$)', text):
                missing.append(name + tag)
    return missing


# ------------------------------------------------------------------------------- generator
class Chooser:
    """deterministic choices for one harness instance: constructor alternatives (forced ones first), Maybe presence,
    amount length classes, which Bool is the symbolic one"""
    def __init__(self, ctx, seed=0, force=None, fsel=0):
        self.ctx, self.seed, self.force, self.fsel = ctx, seed, dict(force or {}), fsel
        self.n = 0
        self.nbool = 0
        self.depth = 0

    def _h(self, key):
        return zlib.crc32(f'{self.seed}:{key}'.encode())

    def name(self, path):
        self.n += 1
        return f'{path}#{self.n}'

    def cons(self, tname, path):
        n = len(S[tname])
        if tname in self.force:
            return self.force.pop(tname) % n          # the first occurrence takes the forced constructor
        return self._h('c' + path) % n

    def present(self, path):
        if self.depth > 6:
            return False
        return self._h('m' + path) % 3 != 0

    def amount_class(self, path, maxlen):
        return min(maxlen, (0, 1, 1, 2, 2, 3, 7)[self._h('a' + path) % 7])

    def boolean(self, path):
        i = self.nbool
        self.nbool += 1
        if i == self.fsel:
            return bool(self.ctx.boolean(self.name(path)))       # the one symbolic flag of this instance (solver-decided fork)
        return bool(self._h('b' + path) & 1)


def amount(ctx, name, L):
    if L == 0:
        return 0
    v = ctx.uint(name, 8 * L)
    ctx.assume(v >= (1 << (8 * (L - 1))))
    return v


class Exp(dict):
    """expectation of an object: field -> expected value; '_cons' = constructor name, '_type' = TL-B type"""


def gen(ch, kind, w, path, hooks):
    """draw a value of `kind`, append its encoding to writer w, return its expectation"""
    ctx = ch.ctx
    if isinstance(kind, str):
        if kind == 'bool':
            v = ch.boolean(path)
            w.bool_(v)
            return v
        if kind == 'grams':
            v = amount(ctx, ch.name(path), ch.amount_class(path, 15))
            w.grams(v)
            return v
        if kind in hooks:
            return hooks[kind](ch, w, path)
        if kind in S:
            return gen_type(ch, kind, w, path, hooks)
        raise ValueError(kind)
    k = kind[0]
    if k == 'u':
        v = ctx.uint(ch.name(path), kind[1])
        w.u(v, kind[1])
        return v
    if k == 'i':
        v = ctx.sint(ch.name(path), kind[1])
        w.i(v, kind[1])
        return v
    if k == 'const':
        w.u(kind[1], kind[2])
        return kind[1]
    if k == 'bits':
        n = kind[1]
        if n % 8 == 0:
            v = ctx.bytes_(ch.name(path), n // 8)
            w.bytes_(v)
        else:
            v = ctx.bitstr(ch.name(path), n)
            w.bits(v)
        return v
    if k == 'varu':
        lenbits = kind[1]
        v = amount(ctx, ch.name(path), ch.amount_class(path, (1 << lenbits) - 1))
        w.var_uint(v, lenbits)
        return v
    if k == 'maybe':
        if ch.present(path):
            w.bits('1')
            return gen(ch, kind[1], w, path, hooks)
        w.bits('0')
        return None
    if k == 'ref':
        w2 = W()
        ch.depth += 1
        e = gen(ch, kind[1], w2, path, hooks)
        ch.depth -= 1
        c = w2.cell()
        w.ref(c)
        if isinstance(e, Exp):
            e['_cell'] = c
        return e if e is not _CELL else c
    raise ValueError(kind)


_CELL = object()


def gen_type(ch, tname, w, path, hooks):
    ci = ch.cons(tname, path)
    name, tag, fields = S[tname][ci]
    w.bits(tagbits(tag))
    e = Exp(_cons=name, _type=tname)
    _fields(ch, fields, w, path, hooks, e)
    return e


def _fields(ch, fields, w, path, hooks, e):
    for (fname, kind) in fields:
        if isinstance(kind, tuple) and kind[0] == 'group':
            w2 = W()
            _fields(ch, kind[1], w2, path, hooks, e)
            w.ref(w2.cell())
        else:
            e[fname] = gen(ch, kind, w, f'{path}.{fname}', hooks)
