"""An independent decoder over the constructor tables of specs/tlbschema.py: reads a concrete cell tree bit by bit according
to the schema data and returns expectation trees (Exp) in the same form the generator produces, so that the library's parsed
objects can be compared with it field by field.  Used on the bundled main-net block (concrete data; no solver involved).
Things the schema tables treat as opaque (whole messages, state-inits, out-message dictionaries) are returned as WILD."""
from specs.tlbschema import S, Exp, tagbits

WILD = object()          # "not decoded here": compares equal to anything


class DecodeError(Exception):
    pass


class Rd:
    """bit/reference reader over a library cell (ordinary cells only)"""
    def __init__(self, cell):
        if cell.type_ != -1:
            raise DecodeError('exotic cell where an ordinary one is expected')
        self.b = cell.bits.to01()
        self.refs = list(cell.refs)
        self.p = 0
        self.rp = 0

    def take(self, n):
        if self.p + n > len(self.b):
            raise DecodeError('cell underflow')
        s = self.b[self.p:self.p + n]
        self.p += n
        return s

    def u(self, n):
        return int(self.take(n), 2) if n else 0

    def i(self, n):
        v = self.u(n)
        return v - (1 << n) if n and v >> (n - 1) else v

    def ref(self):
        if self.rp >= len(self.refs):
            raise DecodeError('reference underflow')
        self.rp += 1
        return self.refs[self.rp - 1]

    def peek(self, n):
        return self.b[self.p:self.p + n]

    def done(self):
        return self.p == len(self.b) and self.rp == len(self.refs)


def var_uint(r, lenbits):
    n = r.u(lenbits)
    return r.u(8 * n)


def label(r, m):
    """HmLabel ~l m: returns the label bits"""
    if r.u(1) == 0:                       # hml_short$0 len:(Unary ~n) s:(n * Bit)
        n = 0
        while r.u(1) == 1:
            n += 1
        return r.take(n)
    if r.u(1) == 0:                       # hml_long$10 n:(#<= m) s:(n * Bit)
        n = r.u(m.bit_length())
        return r.take(n)
    v = r.take(1)                         # hml_same$11 v:Bit n:(#<= m)
    n = r.u(m.bit_length())
    return v * n


def hashmap(cell_or_reader, n, leaf, prefix='', aug=None, out=None, extras=None):
    """Hashmap n X (aug=None) or HashmapAug n X Y: leaf(reader) -> value, aug(reader) -> extra.  Pruned sub-trees are skipped.
    Returns ({key int: value}, [extras in schema order])"""
    out = {} if out is None else out
    extras = [] if extras is None else extras
    if isinstance(cell_or_reader, Rd):
        r = cell_or_reader
    else:
        if cell_or_reader.type_ != -1:
            return out, extras
        r = Rd(cell_or_reader)
    lab = label(r, n)
    m = n - len(lab)
    key = prefix + lab
    if m == 0:
        if aug is not None:
            extras.append(aug(r))
        out[int(key, 2) if key else 0] = leaf(r)
        return out, extras
    left, right = r.ref(), r.ref()
    hashmap(left, m - 1, leaf, key + '0', aug, out, extras)
    hashmap(right, m - 1, leaf, key + '1', aug, out, extras)
    if aug is not None:
        extras.append(aug(r))
    return out, extras


def dec_cc(r):
    g = var_uint(r, 4)
    extra = {}
    if r.u(1):
        extra, _ = hashmap(r.ref(), 32, lambda x: var_uint(x, 5))
    return Exp(_cons='currencies', _type='cc', grams=g, _extra=extra)


def dec_addr(r):
    tag = r.u(2)
    if tag == 0:
        return None
    if tag != 2:
        raise DecodeError('address kind not decoded')
    anycast = None
    if r.u(1):
        d = r.u(5)
        anycast = (d, r.u(d))
    wc = r.i(8)
    return Exp(_cons='addr_std', _type='addr', wc=wc, hash_part=int(r.take(256), 2).to_bytes(32, 'big'), _anycast=anycast)


HOOKS = {'cc': dec_cc, 'addr': dec_addr}
ALIASES = {'TransactionDescrSimple': 'TransactionDescr', 'TransactionLeaf': 'Transaction', 'InMsgLeaf': 'InMsg'}
OPAQUE = {'Message', 'StateInit', 'anycell'}


def dec(kind, r):
    if isinstance(kind, str):
        kind = ALIASES.get(kind, kind)
        if kind == 'bool':
            return bool(r.u(1))
        if kind == 'grams':
            return var_uint(r, 4)
        if kind in HOOKS:
            return HOOKS[kind](r)
        if kind in OPAQUE:
            return WILD
        if kind in S:
            return dec_type(kind, r)
        raise DecodeError(f'unknown kind {kind}')
    k = kind[0]
    if k == 'u':
        return r.u(kind[1])
    if k == 'i':
        return r.i(kind[1])
    if k == 'const':
        if r.u(kind[2]) != kind[1]:
            raise DecodeError('constant field mismatch')
        return kind[1]
    if k == 'bits':
        n = kind[1]
        s = r.take(n)
        return int(s, 2).to_bytes(n // 8, 'big') if n % 8 == 0 else s
    if k == 'varu':
        return var_uint(r, kind[1])
    if k == 'maybe':
        return dec(kind[1], r) if r.u(1) else None
    if k == 'ref':
        c = r.ref()
        inner = kind[1]
        if isinstance(inner, str) and ALIASES.get(inner, inner) in OPAQUE:
            return WILD
        if c.type_ != -1:
            return WILD                    # pruned
        r2 = Rd(c)
        return dec(inner, r2)
    if k == 'hme_msgs':
        if r.u(1):
            r.ref()
        return WILD
    raise DecodeError(f'unknown kind {kind}')


def dec_type(tname, r):
    for (name, tag, fields) in S[tname]:
        tb = tagbits(tag)
        if r.peek(len(tb)) == tb:
            r.take(len(tb))
            e = Exp(_cons=name, _type=tname)
            _fields(fields, r, e)
            return e
    raise DecodeError(f'no constructor of {tname} matches')


def _fields(fields, r, e):
    for (fname, kind) in fields:
        if isinstance(kind, tuple) and kind[0] == 'group':
            c = r.ref()
            if c.type_ != -1:
                for f2, _ in kind[1]:
                    e[f2] = WILD
                continue
            _fields(kind[1], Rd(c), e)
        else:
            e[fname] = dec(kind, r)
