"""Concrete execution of a harness on the untouched library (real bitarray, real hashlib, no hook).

  python -m sx.concrete            persistent worker: one JSON request per line on stdin, one JSON answer per line
  python -m sx.concrete FILE.json  replay a stored counterexample; exit 1 if the failure reproduces, 0 otherwise
"""
import importlib
import json
import os
import sys
import traceback

HERE = os.path.dirname(os.path.dirname(os.path.abspath(__file__)))
REPO = os.environ.get('SX_REPO', '/repo')


def setup_path():
    if REPO not in sys.path:
        sys.path.insert(0, REPO)
    if HERE not in sys.path:
        sys.path.insert(0, HERE)


def run_one(req):
    from sx.api import ConcCtx
    from sx import core as C
    mod = importlib.import_module(req['module'])
    fn = getattr(mod, req['harness'])
    ctx = ConcCtx(req.get('inputs', {}), req.get('fill'))
    out = dict(failures=[], exception=None, observations=[], labels=[])
    try:
        fn(ctx, **req.get('params', {}))
    except C.PathInfeasible:
        out['infeasible'] = True
    except C.SxControl as ex:
        out['exception'] = 'control:' + type(ex).__name__
    except Exception as ex:
        tb = traceback.extract_tb(sys.exc_info()[2])
        if not any(f.filename.startswith(REPO + os.sep) for f in tb):
            out['exception'] = 'control:harness-' + type(ex).__name__
            out['detail'] = f'{type(ex).__name__}: {ex}'[:300]
            out['trace'] = traceback.format_exc()[-1500:]
            out['failures'] = ctx.failures
            out['observations'] = ctx.observations
            out['labels'] = ctx.req_labels
            return out
        out['exception'] = type(ex).__name__
        out['detail'] = f'{type(ex).__name__}: {ex}'[:300]
        out['trace'] = traceback.format_exc()[-1500:]
    out['failures'] = ctx.failures
    out['observations'] = ctx.observations
    out['labels'] = ctx.req_labels
    if req.get('fill') is not None:
        out['used_inputs'] = {k: hex(v) for k, v in ctx.used.items()}
    return out


def main():
    setup_path()
    if len(sys.argv) > 1:
        with open(sys.argv[1]) as f:
            req = json.load(f)
        res = run_one(req)
        failed = bool(res['failures']) or (res['exception'] is not None and not res['exception'].startswith('control:'))
        print(json.dumps(dict(reproduced=failed, failures=res['failures'], exception=res.get('exception'),
                              detail=res.get('detail'))))
        if failed:
            print(f"REPRODUCED property={req.get('property')} harness={req['harness']} params={req.get('params')} "
                  f"failures={res['failures']} exception={res.get('detail')}")
        sys.exit(1 if failed else 0)
    for line in sys.stdin:
        line = line.strip()
        if not line:
            continue
        try:
            res = run_one(json.loads(line))
        except BaseException as ex:      # noqa
            res = dict(error=f'{type(ex).__name__}: {ex}', trace=traceback.format_exc()[-1500:])
        sys.stdout.write(json.dumps(res) + '\n')
        sys.stdout.flush()


if __name__ == '__main__':
    main()
