"""SymZ: symbolic mathematical integer (z3 Int, linear arithmetic).  For pure-arithmetic kernels (sums and products of
weights, thresholds) where bit-vectors are the wrong theory.  Never mixed with SymInt in one term."""
import z3
from . import core as C


def _l(o):
    if isinstance(o, SymZ):
        return o.e
    if isinstance(o, bool):
        return z3.IntVal(int(o))
    if isinstance(o, int):
        return z3.IntVal(o)
    if isinstance(o, (C.SymInt, C.SymBool)):
        raise C.Inconclusive('mixing integer-theory and bit-vector values')
    return None


def mkz(e):
    e = z3.simplify(e)
    if z3.is_int_value(e):
        return e.as_long()
    return SymZ(e)


class SymZ:
    __slots__ = ('e',)

    def __init__(self, e):
        self.e = e

    def _b(self, o, f):
        b = _l(o)
        if b is None:
            if isinstance(o, (float, SymQuot)):
                raise C.Unmodelled('floating-point arithmetic with a symbolic integer')
            return NotImplemented
        return mkz(f(self.e, b))

    def __add__(self, o): return self._b(o, lambda a, b: a + b)
    def __radd__(self, o): return self._b(o, lambda a, b: b + a)
    def __sub__(self, o): return self._b(o, lambda a, b: a - b)
    def __rsub__(self, o): return self._b(o, lambda a, b: b - a)
    def __mul__(self, o): return self._b(o, lambda a, b: a * b)
    def __rmul__(self, o): return self._b(o, lambda a, b: b * a)
    def __neg__(self): return mkz(-self.e)
    def __pos__(self): return self

    def __floordiv__(self, o):
        if isinstance(o, int) and o > 0:
            return mkz(self.e / o)          # z3 Int division floors for positive divisors
        raise C.Unmodelled('floordiv of integer-theory value by non-constant')

    def __mod__(self, o):
        if isinstance(o, int) and o > 0:
            return mkz(self.e % o)
        raise C.Unmodelled('mod of integer-theory value by non-constant')

    def __truediv__(self, o):
        # true division yields a float in Python: outside the integer theory (and usually a precision bug in the code)
        raise C.Unmodelled('true division of symbolic integers (float arithmetic)')

    __rtruediv__ = __truediv__

    def _c(self, o, f):
        b = _l(o)
        if b is None:
            return NotImplemented          # (a SymQuot on the other side answers through its reflected comparison)
        return C.mkbool(f(self.e, b))

    def __eq__(self, o): return self._c(o, lambda a, b: a == b)
    def __ne__(self, o): return self._c(o, lambda a, b: a != b)
    def __lt__(self, o): return self._c(o, lambda a, b: a < b)
    def __le__(self, o): return self._c(o, lambda a, b: a <= b)
    def __gt__(self, o): return self._c(o, lambda a, b: a > b)
    def __ge__(self, o): return self._c(o, lambda a, b: a >= b)

    def __bool__(self):
        return C.E().decide(self.e != 0)

    def __index__(self):
        return C.E().concretize(self.e).as_long()
    __int__ = __index__

    def __float__(self):
        raise C.Unmodelled('float(symbolic integer)')

    __hash__ = None

    def __repr__(self):
        return 'SymZ'

    def __format__(self, spec):
        return '<symbolic integer>'


# ------------------------------------------------------------------------------- correctly rounded true division
class SymQuot:
    """float result of `a / b` for symbolic integers a, b (b > 0 on the path): CPython's int/int true division is
    correctly rounded (round-half-even of the exact quotient), and rounding is monotonic, so a comparison of the
    rounded quotient with a float/int constant c is an exact comparison of the rational a/b with the rounding
    boundary next to c - linear integer arithmetic, no floating-point theory needed.  Any other use is Unmodelled."""
    def __init__(self, num, den):
        self.num, self.den = num, den

    @staticmethod
    def _boundary(c, side):
        """Fraction m and inclusiveness such that  float(q) >= c  <=>  q >= m (inclusive) or q > m  [side='ge'];
        float(q) <= c  <=>  q <= m (inclusive) or q < m  [side='le']"""
        import math
        import struct
        from fractions import Fraction
        c = float(c)
        if math.isnan(c) or math.isinf(c):
            raise C.Unmodelled('comparison with nan/inf')
        other = math.nextafter(c, -math.inf if side == 'ge' else math.inf)
        mid = (Fraction(c) + Fraction(other)) / 2
        even = (struct.unpack('<Q', struct.pack('<d', c))[0] & 1) == 0      # a tie rounds to the even mantissa
        return mid, even

    def _cmp_ge(self, c, strict):
        import math
        if strict:                        # float(q) > c  <=>  float(q) >= succ(c)
            c = math.nextafter(float(c), math.inf)
        mid, incl = self._boundary(c, 'ge')
        lhs = _l(self.num) * mid.denominator
        rhs = _l(self.den) * mid.numerator
        return C.mkbool(lhs >= rhs if incl else lhs > rhs)

    def _cmp_le(self, c, strict):
        import math
        if strict:
            c = math.nextafter(float(c), -math.inf)
        mid, incl = self._boundary(c, 'le')
        lhs = _l(self.num) * mid.denominator
        rhs = _l(self.den) * mid.numerator
        return C.mkbool(lhs <= rhs if incl else lhs < rhs)

    def _const(self, o):
        if isinstance(o, bool) or not isinstance(o, (int, float)):
            raise C.Unmodelled('comparison of a symbolic quotient with a non-constant')
        if isinstance(o, int) and abs(o) >= 2 ** 53:
            raise C.Unmodelled('comparison of a symbolic quotient with a large integer')
        return o

    # ---- exact value of the rounded quotient for a constant denominator: N * 2**sh, N an integer term
    def rounded(self):
        """(N, sh) with float(num/den) == N * 2**sh exactly.  The binade of the quotient is found by solver-decided forks
        (one path per binade that is feasible under the path condition); inside a binade the 53-bit significand is the
        round-half-even of num / (den * ulp) - integer division by a constant with a remainder test: linear integer
        arithmetic with three fresh, functionally determined integers."""
        if getattr(self, '_rounded', None) is not None:
            return self._rounded
        a, d = _l(self.num), mkz(_l(self.den))
        if not isinstance(d, int):
            raise C.Unmodelled('rounded value of a quotient with a symbolic denominator')
        E = C.E()
        if E.decide(a < 0):
            raise C.Unmodelled('rounded value of a negative quotient')
        if E.decide(a == 0):
            self._rounded = (z3.IntVal(0), 0)
            return self._rounded
        k = -d.bit_length()
        while True:
            if k > 300:
                raise C.Unmodelled('quotient magnitude beyond 2^300')
            # 2^k <= a/d < 2^(k+1) ?   (the lower bound holds by construction of the loop)
            hi = (a < d * (1 << (k + 1))) if k + 1 >= 0 else (a * (1 << -(k + 1)) < d)
            if E.decide(hi):
                break
            k += 1
        sh = k - 52
        A, D = (a, d * (1 << sh)) if sh >= 0 else (a * (1 << -sh), d)
        n, h, par = (z3.FreshConst(z3.IntSort(), nm) for nm in ('qn', 'qh', 'qp'))
        r = A - n * D
        E.add(z3.And(r >= 0, r < D, n == 2 * h + par, par >= 0, par <= 1))
        N = n + z3.If(z3.Or(2 * r > D, z3.And(2 * r == D, par == 1)), 1, 0)
        self._rounded = (N, sh)
        return self._rounded

    def _cmp_int(self, o, op):
        """float(q) <op> o for an integer o (constant or symbolic): Python compares a float with an int exactly"""
        N, sh = self.rounded()
        c = _l(o)
        lhs, rhs = (N * (1 << sh), c) if sh >= 0 else (N, c * (1 << -sh))
        return C.mkbool({'ge': lhs >= rhs, 'gt': lhs > rhs, 'le': lhs <= rhs, 'lt': lhs < rhs, 'eq': lhs == rhs}[op])

    def _is_int(self, o):
        return isinstance(o, SymZ) or (isinstance(o, int) and not isinstance(o, bool) and abs(o) >= 2 ** 53)

    def _sym_den(self):
        return not isinstance(mkz(_l(self.den)), int)

    def _cmp(self, o, op):
        if self._is_int(o) or (isinstance(o, int) and not isinstance(o, bool) and not self._sym_den()):
            return self._cmp_int(o, op)
        o = self._const(o)
        if op == 'ge': return self._cmp_ge(o, False)
        if op == 'gt': return self._cmp_ge(o, True)
        if op == 'le': return self._cmp_le(o, False)
        if op == 'lt': return self._cmp_le(o, True)
        from .api import And
        return And(self._cmp_ge(o, False), self._cmp_le(o, False))

    def __ge__(self, o): return self._cmp(o, 'ge')
    def __gt__(self, o): return self._cmp(o, 'gt')
    def __le__(self, o): return self._cmp(o, 'le')
    def __lt__(self, o): return self._cmp(o, 'lt')

    def __eq__(self, o):
        return self._cmp(o, 'eq')

    def __floor__(self):
        N, sh = self.rounded()
        return mkz(N * (1 << sh) if sh >= 0 else N / (1 << -sh))

    def __ceil__(self):
        N, sh = self.rounded()
        return mkz(N * (1 << sh) if sh >= 0 else -((-N) / (1 << -sh)))

    __int__ = __trunc__ = __floor__            # (the quotient is non-negative where rounded() succeeds)

    def __ne__(self, o):
        from .api import Not
        return Not(self.__eq__(o))

    __hash__ = None

    def _un(self, *a):
        raise C.Unmodelled('floating-point arithmetic on a symbolic quotient')

    __add__ = __radd__ = __sub__ = __rsub__ = __mul__ = __rmul__ = __truediv__ = __rtruediv__ = __float__ = _un
    __round__ = _un

    def __format__(self, spec):
        return '<symbolic float>'

    def __repr__(self):
        return 'SymQuot'


def _truediv(self, o):
    b = _l(o)
    if b is None:
        return NotImplemented
    den = mkz(b)
    if isinstance(den, int):
        if den == 0:
            raise ZeroDivisionError('division by zero')
        if den < 0:
            raise C.Unmodelled('true division by a negative constant')
    else:
        if den == 0:                      # solver-decided fork
            raise ZeroDivisionError('division by zero')
        if not (den > 0):
            raise C.Unmodelled('true division by a negative value')
    return SymQuot(self, den)


def _rtruediv(self, o):
    if isinstance(o, bool) or not isinstance(o, int):
        raise C.Unmodelled('float / symbolic integer')
    if self == 0:
        raise ZeroDivisionError('division by zero')
    if not (self > 0):
        raise C.Unmodelled('true division by a negative value')
    return SymQuot(o, self)


SymZ.__truediv__ = _truediv
SymZ.__rtruediv__ = _rtruediv
