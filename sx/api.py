"""Harness-facing API.  A harness is an ordinary function `h(ctx, **params)`; the same code runs
  * symbolically (SymCtx: inputs are z3-backed values, the library is loaded through the hook), and
  * concretely  (ConcCtx: inputs are python values taken from a solver model, the untouched library is imported)
so a replay checks the real implementation against the oracle, not against the solver's opinion.
"""
import fnmatch
import z3

from . import core as C


# ------------------------------------------------------------------------------- boolean helpers usable in both modes
def _issym(x):
    return isinstance(x, (C.SymBool, z3.BoolRef))


def Not(a):
    if _issym(a):
        return C.mkbool(z3.Not(C.to_z3bool(a)))
    return not a


def And(*xs):
    if any(_issym(x) for x in xs):
        return C.mkbool(z3.And([C.to_z3bool(x) for x in xs]))
    return all(bool(x) for x in xs)


def Or(*xs):
    if any(_issym(x) for x in xs):
        return C.mkbool(z3.Or([C.to_z3bool(x) for x in xs]))
    return any(bool(x) for x in xs)


def Implies(a, b):
    return Or(Not(a), b)


def Iff(a, b):
    if _issym(a) or _issym(b):
        return C.mkbool(C.to_z3bool(a) == C.to_z3bool(b))
    return bool(a) == bool(b)


def Ite(c, a, b):
    """value-level if-then-else on ints (SymInt/int)"""
    if _issym(c):
        ea, eb = C._lift(a), C._lift(b)
        w = max(ea.size(), eb.size())
        return C.mk(z3.If(C.to_z3bool(c), C._sx(ea, w), C._sx(eb, w)))
    return a if c else b


def is_symbolic(x):
    return isinstance(x, (C.SymBool, C.SymInt, C.SymBytes, C.SymBitStr, C.AsciiText, C.UniText))


# ------------------------------------------------------------------------------- conversions used by oracles (both modes)
def bits_of_uint(x, n):
    """n-bit big-endian rendering of an unsigned/signed integer (two's complement) as a '01' string / SymBitStr"""
    if isinstance(x, C.SymInt):
        e = C._sx(x.e, max(x.e.size(), n))
        return C.mkbitstr(C.Bits.of_bv(z3.Extract(n - 1, 0, e))) if n else ''
    if isinstance(x, C.SymBool):
        return bits_of_uint(x._asint(), n)
    return format(int(x) & ((1 << n) - 1), '0%db' % n) if n else ''


def bits_of_bytes(b):
    if isinstance(b, C.SymBytes):
        return C.mkbitstr(b.bits)
    return ''.join(format(x, '08b') for x in b)


def bytes_of_bits(s):
    """'01'-string / SymBitStr whose length is a multiple of 8 -> bytes / SymBytes"""
    if isinstance(s, C.SymBitStr):
        assert len(s) % 8 == 0
        return C.mkbytes(s.bits)
    assert len(s) % 8 == 0
    return int(s, 2).to_bytes(len(s) // 8, 'big') if s else b''


def uint_of_bits(s):
    if isinstance(s, C.SymBitStr):
        return C.sym_uint(s.bits.bv())
    return int(s, 2) if s else 0


def sint_of_bits(s):
    if isinstance(s, C.SymBitStr):
        return C.sym_sint(s.bits.bv())
    if not s:
        return 0
    v = int(s, 2)
    return v - (1 << len(s)) if s[0] == '1' else v


def bitlen(s):
    return len(s)


def cat_bits(*parts):
    """concatenate '01' strings / SymBitStr"""
    out = ''
    for p in parts:
        if isinstance(p, str) and p == '':
            continue
        out = out + p if not (isinstance(out, str) and out == '') else p
    return out


def sha256(data):
    """the hash function of the current mode: real SHA-256 concretely, the injective uninterpreted function
    symbolically (same object the hooked library uses)"""
    h = C.sha256_stub() if C.E() is not None else None
    if h is None:
        import hashlib
        return hashlib.sha256(data).digest()
    h.update(data)
    return h.digest()


# ------------------------------------------------------------------------------- contexts
class Failure(Exception):
    pass


class BaseCtx:
    symbolic = False

    def __init__(self):
        self.observations = []
        self.req_labels = []


class SymCtx(BaseCtx):
    symbolic = True

    def __init__(self, eng, known_entries):
        super().__init__()
        self.eng = eng
        self.known_entries = known_entries      # open known-finding entries for this harness
        self.known_conds = {}                   # class -> z3 bool / python bool
        self.violations = []                    # dicts
        self.obligations = []                   # (label, outcome, how)
        self.kinds = {}

    # inputs
    def uint(self, name, width):
        self.kinds[name] = ('uint', width)
        return C.sym_uint(self.eng.fresh_bv(name, width))

    def sint(self, name, width):
        self.kinds[name] = ('sint', width)
        return C.sym_sint(self.eng.fresh_bv(name, width))

    def bytes_(self, name, n):
        if n == 0:
            return b''
        self.kinds[name] = ('bytes', n)
        return C.SymBytes(C.Bits.of_bv(self.eng.fresh_bv(name, 8 * n)))

    def bitstr(self, name, n):
        if n == 0:
            return ''
        self.kinds[name] = ('bitstr', n)
        return C.SymBitStr(C.Bits.of_bv(self.eng.fresh_bv(name, n)))

    def boolean(self, name):
        self.kinds[name] = ('bool', 1)
        return C.SymBool(self.eng.fresh_bv(name, 1) == 1)

    def ascii(self, name, n):
        """ASCII text of n characters (7-bit items; non-ASCII text is outside every claim)"""
        if n == 0:
            return ''
        b = self.bytes_(name, n)
        self.eng.add(b.bits.bv() & int('80' * n, 16) == 0)
        return C.AsciiText(b)

    def unitext(self, name, classes, prefix=''):
        """text of len(classes) characters whose UTF-8 encodings take classes[i] bytes (1, 2 or 3); every valid code point
        of each class (shortest form, no surrogates); after a concrete ASCII prefix"""
        if not classes:
            return prefix
        total = C.uni_layout(classes)
        self.kinds[name] = ('uint', total)
        v = self.eng.fresh_bv(name, total)
        cps, off = [], total
        for cls in classes:
            w = C.UNI_PAYLOAD[cls]
            cp = z3.Extract(off - 1, off - w, v)
            off -= w
            ok = C.uni_valid(cls, cp)
            if ok is not True:
                self.eng.add(ok)
            cps.append((cls, cp))
        return C.UniText.build([(1, ord(ch)) for ch in prefix] + cps)

    def zint(self, name, lo=None, hi=None):
        """mathematical-integer input (integer theory back-end); only for harnesses run with theory='int'"""
        from . import zint
        self.kinds[name] = ('zint', 0)
        v = zint.SymZ(self.eng.fresh_int(name))
        if lo is not None:
            self.eng.add(v.e >= lo)
        if hi is not None:
            self.eng.add(v.e <= hi)
        return v

    def assume(self, c):
        self.eng.assume(c)

    def known(self, cls, cond):
        """declare, for the current path, the predicate of a known-finding class over the harness inputs"""
        self.known_conds[cls] = cond

    def _known_for(self, label):
        conds, names = [], []
        for ent in self.known_entries:
            if ent['class'] in self.known_conds and fnmatch.fnmatch(label, ent.get('label', '*')):
                conds.append(C.to_z3bool(self.known_conds[ent['class']]))
                names.append(ent['class'])
        return conds, names

    def require(self, cond, label):
        eng = self.eng
        self.req_labels.append(label)
        eng.stats['obligations'] += 1
        if cond is True:
            eng.stats['by_rewriting'] += 1
            self.obligations.append((label, 'discharged', 'rewriting'))
            return
        neg = z3.Not(C.to_z3bool(cond))
        kconds, knames = self._known_for(label)
        outside = z3.And(neg, *[z3.Not(k) for k in kconds]) if kconds else neg
        r, model, how = eng.query(outside)
        if r == 'unsat':
            if kconds:
                # nothing fails outside the known classes; does it (still) fail inside them?
                r2, model2, how2 = eng.query(neg)
                if r2 == 'sat':
                    cls = self._which_known(model2, kconds, knames)
                    self.violations.append(dict(label=label, inputs=self._inputs(model2), known=cls))
                    self.obligations.append((label, 'known-finding', how2))
                    return
                if r2 == 'unknown':
                    eng.stats['inconclusive'] += 1
                    self.obligations.append((label, 'inconclusive', how2))
                    return
            if how == 'rewriting':
                eng.stats['by_rewriting'] += 1
            else:
                eng.stats['by_solver'] += 1
            self.obligations.append((label, 'discharged', how))
        elif r == 'sat':
            gm = eng.generic_model(outside)
            self.violations.append(dict(label=label, inputs=self._inputs(gm if gm is not None else model), known=None))
            self.obligations.append((label, 'violated', how))
        else:
            eng.stats['inconclusive'] += 1
            self.obligations.append((label, 'inconclusive', how))

    def _which_known(self, model, kconds, knames):
        for k, n in zip(kconds, knames):
            if z3.is_true(model.eval(k, model_completion=True)):
                return n
        return knames[0]

    def exception(self, ex):
        """an exception escaped the harness on a feasible path: violation candidate"""
        label = 'exception:' + type(ex).__name__
        eng = self.eng
        eng.stats['obligations'] += 1
        kconds, knames = self._known_for(label)
        outside = z3.And(*[z3.Not(k) for k in kconds]) if kconds else z3.BoolVal(True)
        r, model, how = eng.query(outside)
        detail = f'{type(ex).__name__}: {ex}'[:300]
        if r == 'sat':
            self.violations.append(dict(label=label, inputs=self._inputs(model), known=None, detail=detail))
            self.obligations.append((label, 'violated', how))
        elif r == 'unsat' and kconds:
            r2, model2, how2 = eng.query(z3.BoolVal(True))
            if r2 == 'sat':
                cls = self._which_known(model2, kconds, knames)
                self.violations.append(dict(label=label, inputs=self._inputs(model2), known=cls, detail=detail))
                self.obligations.append((label, 'known-finding', how2))
            else:
                self.obligations.append((label, 'inconclusive', how2))
        else:
            eng.stats['inconclusive'] += 1
            self.obligations.append((label, 'inconclusive', how))

    def observe(self, label, value):
        self.observations.append((label, value))

    def _inputs(self, model):
        out = {}
        for k, v in self.eng.inputs.items():
            r = model.eval(v, model_completion=True)
            out[k] = r.as_long()
        return out

    def eval_observations(self, model):
        return [(l, conc_value(v, model)) for l, v in self.observations]


def conc_value(v, model):
    if isinstance(v, C.SymInt):
        return model.eval(v.e, model_completion=True).as_signed_long()
    if isinstance(v, C.SymBool):
        return z3.is_true(model.eval(v.e, model_completion=True))
    if isinstance(v, C.SymBytes):
        n = len(v)
        return model.eval(v.bits.bv(), model_completion=True).as_long().to_bytes(n, 'big').hex()
    if isinstance(v, C.AsciiText):
        return bytes.fromhex(conc_value(v.b, model)).decode('latin1')
    if isinstance(v, C.UniText):
        return bytes.fromhex(conc_value(v.b, model)).decode('utf-8', 'replace')
    if isinstance(v, C.SymBitStr):
        n = len(v)
        return format(model.eval(v.bits.bv(), model_completion=True).as_long(), '0%db' % n)
    if isinstance(v, (bytes, bytearray)):
        return bytes(v).hex()
    if isinstance(v, (list, tuple)):
        return [conc_value(x, model) for x in v]
    if isinstance(v, dict):
        return {str(conc_value(k, model)): conc_value(x, model) for k, x in v.items()}
    if hasattr(v, 'e') and isinstance(getattr(v, 'e'), z3.ArithRef):
        return model.eval(v.e, model_completion=True).as_long()
    if v is None or isinstance(v, (bool, int, str)):
        return v
    return repr(v)


def conc_plain(v):
    if isinstance(v, (bytes, bytearray)):
        return bytes(v).hex()
    if isinstance(v, (list, tuple)):
        return [conc_plain(x) for x in v]
    if isinstance(v, dict):
        return {str(conc_plain(k)): conc_plain(x) for k, x in v.items()}
    if v is None or isinstance(v, (bool, int, str)):
        return v
    return repr(v)


class ConcCtx(BaseCtx):
    """concrete replay: inputs from a model, the real library"""
    symbolic = False

    def __init__(self, inputs, fill=None):
        super().__init__()
        self.inputs = inputs
        self.failures = []
        self.fill = fill            # None: inputs that are not given are 0; otherwise pseudo-random bits derived from (fill, name)
        self.used = {}

    def _get(self, name):
        if name in self.inputs:
            v = self.inputs[name]
            if isinstance(v, str):
                v = int(v, 16)
        elif self.fill is None:
            v = 0
        else:
            import hashlib
            v = int.from_bytes(hashlib.shake_256(f'{self.fill}:{name}'.encode()).digest(256), 'big')
        self.used[name] = v
        return v

    def uint(self, name, width):
        return self._get(name) & ((1 << width) - 1)

    def sint(self, name, width):
        v = self._get(name) & ((1 << width) - 1)
        return v - (1 << width) if v >> (width - 1) else v

    def bytes_(self, name, n):
        if n == 0:
            return b''
        return (self._get(name) & ((1 << (8 * n)) - 1)).to_bytes(n, 'big')

    def bitstr(self, name, n):
        if n == 0:
            return ''
        return format(self._get(name) & ((1 << n) - 1), '0%db' % n)

    def boolean(self, name):
        return bool(self._get(name) & 1)

    def ascii(self, name, n):
        return bytes(x & 0x7f for x in self.bytes_(name, n)).decode('ascii')

    def unitext(self, name, classes, prefix=''):
        if not classes:
            return prefix
        total = C.uni_layout(classes)
        v = self._get(name) & ((1 << total) - 1)
        out, off = [], total
        for cls in classes:
            w = C.UNI_PAYLOAD[cls]
            cp = (v >> (off - w)) & ((1 << w) - 1)
            off -= w
            if not C.uni_valid(cls, cp):
                raise C.PathInfeasible('code point outside its UTF-8 length class in concrete run')
            out.append(chr(cp))
        return prefix + ''.join(out)

    def zint(self, name, lo=None, hi=None):
        return self._get(name)

    def assume(self, c):
        if not c:
            raise C.PathInfeasible('assumption false in concrete run')

    def known(self, cls, cond):
        pass

    def require(self, cond, label):
        self.req_labels.append(label)
        if not cond:
            self.failures.append(label)

    def observe(self, label, value):
        self.observations.append((label, conc_plain(value)))
