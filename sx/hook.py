"""Import hook: loads pytoniq_core from the repository's current working tree with a generic, function-agnostic
AST instrumentation, and gives the modules symbolic-aware builtins and environment stubs.

Rewrites (none depends on an identifier of the library):
  1. `a[b]` (load)            -> __sx_getitem__(a, b)
  2. `return e` in `__hash__` -> return __sx_hash__(e)
  3. f-strings                -> __sx_fstr__([...])
  3b. `x.join(y)`             -> __sx_join__(x, y)   (bytes/str joins over symbolic items; anything else falls through)
  4. every function body gets `__sx_enter__(k)` as first statement (entry counter: which repo functions were
     actually executed, and how often - evidence and C19's work counter)
"""
import ast
import base64 as _b64
import binascii as _binascii
import hashlib as _hl
import importlib.abc
import importlib.util
import math as _math
import os
import sys
import types

import z3

from . import core as C

REPO = os.environ.get('SX_REPO', '/repo')

FUNCS = []          # qualified names, index = id
COUNTS = []         # entry counters


def sx_enter(k):
    COUNTS[k] += 1


def reset_counts():
    for i in range(len(COUNTS)):
        COUNTS[i] = 0


def entered():
    return {FUNCS[i]: COUNTS[i] for i in range(len(FUNCS)) if COUNTS[i]}


class T(ast.NodeTransformer):
    def __init__(self, modname):
        self.in_hash = 0
        self.in_repr = 0
        self.modname = modname
        self.stack = []

    def visit_Subscript(self, node):
        self.generic_visit(node)
        if isinstance(node.ctx, ast.Load):
            return ast.copy_location(
                ast.Call(func=ast.Name('__sx_getitem__', ast.Load()), args=[node.value, node.slice], keywords=[]), node)
        return node

    def visit_ClassDef(self, node):
        self.stack.append(node.name)
        self.generic_visit(node)
        self.stack.pop()
        return node

    def _func(self, node):
        self.stack.append(node.name)
        if node.name == '__hash__':
            self.in_hash += 1
            self.generic_visit(node)
            self.in_hash -= 1
        elif node.name in ('__repr__', '__str__', '__format__'):
            # must return a real str: f-strings stay native there (symbolic parts render as inert placeholders)
            self.in_repr += 1
            self.generic_visit(node)
            self.in_repr -= 1
        else:
            self.generic_visit(node)
        qual = self.modname + '.' + '.'.join(self.stack)
        self.stack.pop()
        k = len(FUNCS)
        FUNCS.append(qual)
        COUNTS.append(0)
        stmt = ast.Expr(ast.Call(func=ast.Name('__sx_enter__', ast.Load()), args=[ast.Constant(k)], keywords=[]))
        body = node.body
        pos = 1 if (body and isinstance(body[0], ast.Expr) and isinstance(getattr(body[0], 'value', None), ast.Constant)
                    and isinstance(body[0].value.value, str)) else 0
        body.insert(pos, ast.copy_location(stmt, body[0]))
        return node

    visit_FunctionDef = _func
    visit_AsyncFunctionDef = _func

    def visit_JoinedStr(self, node):
        self.generic_visit(node)
        if self.in_repr:
            return node
        parts = []
        for v in node.values:
            if isinstance(v, ast.Constant):
                parts.append(v)
            elif isinstance(v, ast.FormattedValue) and v.conversion == -1 and v.format_spec is None:
                parts.append(v.value)
            else:
                return node
        return ast.copy_location(
            ast.Call(func=ast.Name('__sx_fstr__', ast.Load()), args=[ast.List(elts=parts, ctx=ast.Load())],
                     keywords=[]), node)

    def visit_Call(self, node):
        self.generic_visit(node)
        if isinstance(node.func, ast.Attribute) and node.func.attr == 'join' and len(node.args) == 1 and not node.keywords \
                and not isinstance(node.args[0], ast.Starred):
            return ast.copy_location(
                ast.Call(func=ast.Name('__sx_join__', ast.Load()), args=[node.func.value, node.args[0]], keywords=[]), node)
        return node

    def visit_Return(self, node):
        self.generic_visit(node)
        if self.in_hash and node.value is not None:
            node.value = ast.Call(func=ast.Name('__sx_hash__', ast.Load()), args=[node.value], keywords=[])
        return node


# ------------------------------------------------------------------------------- helpers injected into modules
def _symslice(s):
    return any(isinstance(x, C.SymInt) for x in (s.start, s.stop, s.step))


def sx_getitem(a, k):
    tk = type(k)
    if type(a) is BinText:
        if tk is slice and k == slice(2, None, None):
            return C.mkbitstr(a.bits)
        raise C.Unmodelled('bin() text used other than [2:]')
    if tk is int or tk is str:
        return a[k]
    if tk is slice:
        if _symslice(k) and not isinstance(a, (C.SymBytes, C.SymBitStr)) and not hasattr(a, '_b'):
            k = C._cslice(k, len(a) if _real_isinstance(a, (bytes, bytearray, list, tuple, str)) else None)
        return a[k]
    if tk is C.SymInt:
        if isinstance(a, (list, tuple)) and a and all(type(x) is int for x in a):
            # constant integer table indexed symbolically -> balanced multiplexer on the selector bits (no fork)
            n = len(a)
            ub = C.unsigned_bound(k.e)
            if ub is None or ub > n:
                lo = k >= -n
                hi = k < n
                if not lo or not hi:
                    raise IndexError('list index out of range')
                if not (k >= 0):
                    k = k + n
            w = max(x.bit_length() for x in a) + 1
            nb = max(1, (n - 1).bit_length())
            sel = z3.Extract(nb - 1, 0, C._sx(k.e, max(k.e.size(), nb)))

            def mux(lo_i, bit):
                if lo_i >= n:
                    return z3.BitVecVal(0, w)
                if bit < 0:
                    return z3.BitVecVal(a[lo_i], w)
                return z3.If(z3.Extract(bit, bit, sel) == 1, mux(lo_i + (1 << bit), bit - 1), mux(lo_i, bit - 1))
            return C.mk(mux(0, nb - 1))
        if isinstance(a, dict):
            return a[k]
        return a[k.__index__()]
    return a[k]


def sx_join(sep, it):
    """`sep.join(it)` where the items may be symbolic byte / bit strings (the C implementation only takes real ones)"""
    if _real_isinstance(sep, (bytes, bytearray, str)):
        items = list(it)
        if any(_real_isinstance(x, (C.SymBytes, C.SymBitStr, C.AsciiText, C.UniText)) for x in items):
            out = None
            for i, x in enumerate(items):
                if i and len(sep):
                    out = out + sep
                out = x if out is None else out + x
            return out
        return sep.join(items)
    return sep.join(it)


RAW_HASH = [False]


def sx_hash(v):
    if RAW_HASH[0]:
        return v
    if isinstance(v, (C.SymInt, C.SymBytes)):
        return 0     # constant hash: dict/set semantics then rest on __eq__, which stays symbolic
    return v


class SxIntMeta(type):
    def __instancecheck__(cls, o):
        return isinstance(o, (int, C.SymInt))

    def __subclasscheck__(cls, c):
        return issubclass(c, int)


class SxInt(metaclass=SxIntMeta):
    def __new__(cls, x=0, base=None):
        if isinstance(x, C.SymInt):
            return x
        if isinstance(x, C.SymBool):
            return x._asint()
        if isinstance(x, C.SymBitStr):
            if base != 2:
                raise C.Unmodelled('int(bit string) with base != 2')
            if not len(x):
                raise ValueError("invalid literal for int() with base 2: ''")
            return C.sym_uint(x.bits.bv())
        if isinstance(x, Rope):
            p = x.single()
            if isinstance(p, DecText) and base is None:
                return p.v
            if isinstance(p, C.HexText) and base == 16:
                return SxInt.from_bytes(p.b, 'big')
            raise ValueError('invalid literal for int()')
        if isinstance(x, C.HexText):
            if base == 16:
                return SxInt.from_bytes(x.b, 'big')
            raise ValueError('invalid literal for int()')
        if isinstance(x, C.SymRatio):
            raise C.Unmodelled('int(ratio)')
        if isinstance(x, BinText):
            raise C.Unmodelled('int(bin text)')
        return int(x) if base is None else int(x, base)

    @staticmethod
    def from_bytes(b, byteorder='big', *, signed=False):
        if isinstance(b, C.SymBytes):
            if byteorder == 'little':
                bits = b.bits.reversed_bytes()
            else:
                bits = b.bits
            if not bits.n:
                return 0
            e = bits.bv()
            return C.mk(e) if signed else C.mk(z3.ZeroExt(1, e))
        return int.from_bytes(b, byteorder, signed=signed)


class SxBytesMeta(type):
    def __instancecheck__(cls, o):
        return isinstance(o, (bytes, C.SymBytes))


class SxBytes(metaclass=SxBytesMeta):
    def __new__(cls, *a, **k):
        if a and isinstance(a[0], C.SymBytes):
            return a[0]
        if a and isinstance(a[0], (list, tuple)) and any(isinstance(x, C.SymInt) for x in a[0]):
            parts = []
            for x in a[0]:
                if isinstance(x, C.SymInt):
                    if not (x >= 0) or not (x < 256):
                        raise ValueError('bytes must be in range(0, 256)')
                    parts.append(C.Bits.of_bv(z3.Extract(7, 0, C._sx(x.e, max(8, x.e.size())))))
                else:
                    parts.append(C.bits_of_int(int(x), 8))
            return C.mkbytes(C.Bits.join(parts))
        if a and isinstance(a[0], C.SymInt):
            return bytes(a[0].__index__())
        return bytes(*a, **k)

    @staticmethod
    def fromhex(x):
        if isinstance(x, Rope):
            p = x.single()
            if isinstance(p, C.HexText):
                return p.b
            raise ValueError('non-hexadecimal number found in fromhex()')
        if isinstance(x, C.HexText):
            return x.b
        if isinstance(x, (B64Text,)):
            raise ValueError('non-hexadecimal number found in fromhex()')
        return bytes.fromhex(x)

    maketrans = staticmethod(bytes.maketrans)


class SxBytearrayMeta(type):
    def __instancecheck__(cls, o):
        return isinstance(o, bytearray)


def sx_len(o):
    f = getattr(o, '__sx_len__', None)
    return f() if f is not None else len(o)


class BinText:
    def __init__(self, bits):
        self.bits = bits


def sx_bin(x):
    if isinstance(x, C.SymInt):
        if x < 0:
            return bin(x.__index__())       # complete enumeration of the (few) negative values by solver-driven forks
        n = C._cidx(x.bit_length())          # the text length must be concrete: one fork per feasible magnitude class
        if n == 0:
            return '0b0'
        e = C._sx(x.e, max(x.e.size(), n))
        return BinText(C.Bits.of_bv(z3.Extract(n - 1, 0, e)))
    return bin(x)


class DecText:
    def __init__(self, v):
        self.v = v


class B64Text:
    """base64 rendering of (symbolic) bytes; contract: decode(encode(x)) == x, alphabet excludes ':'"""
    def __init__(self, payload, urlsafe):
        self.payload, self.urlsafe = payload, urlsafe

    def decode(self, *a):
        return Rope([self])


class Rope:
    def __init__(self, pieces):
        self.pieces = pieces

    def split(self, sep=None, maxsplit=-1):
        out, cur = [], []
        for p in self.pieces:
            if isinstance(p, str):
                segs = p.split(sep)
                cur.append(segs[0])
                for sg in segs[1:]:
                    out.append(Rope([c for c in cur if c != '']))
                    cur = [sg]
            else:
                cur.append(p)      # decimal / hex / base64 text never contains ':' (stub contract)
        out.append(Rope([c for c in cur if c != '']))
        return out

    def single(self):
        if len(self.pieces) != 1:
            raise C.Unmodelled('rope with several pieces used as a value')
        return self.pieces[0]

    def __format__(self, spec):
        return '<symbolic text>'

    def __str__(self):
        return '<symbolic text>'

    def __hash__(self):
        return 0


def sx_fstr(parts):
    if not any(isinstance(p, (C.SymInt, C.HexText, Rope, C.SymBytes)) for p in parts):
        return ''.join(p if isinstance(p, str) else format(p) for p in parts)
    pieces = []
    for p in parts:
        if isinstance(p, C.SymInt):
            pieces.append(DecText(p))
        elif isinstance(p, Rope):
            pieces += p.pieces
        elif isinstance(p, (str, C.HexText)):
            pieces.append(p)
        else:
            pieces.append(format(p))
    return Rope(pieces)


class B64Stub:
    Error = _binascii.Error

    @staticmethod
    def urlsafe_b64encode(b):
        return B64Text(b, True) if isinstance(b, C.SymBytes) else _b64.urlsafe_b64encode(b)

    @staticmethod
    def b64encode(b):
        return B64Text(b, False) if isinstance(b, C.SymBytes) else _b64.b64encode(b)

    @staticmethod
    def urlsafe_b64decode(s):
        if isinstance(s, Rope):
            p = s.single()
            if isinstance(p, B64Text):
                return p.payload      # accepts both alphabets (contract)
            raise _binascii.Error('not base64')
        if isinstance(s, B64Text):
            return s.payload
        if isinstance(s, C.HexText):
            raise C.Unmodelled('base64 decoding of symbolic hex text')
        return _b64.urlsafe_b64decode(s)

    @staticmethod
    def b64decode(s, *a, **k):
        if isinstance(s, (Rope, B64Text)):
            return B64Stub.urlsafe_b64decode(s)
        if isinstance(s, C.HexText):
            raise C.Unmodelled('base64 decoding of symbolic hex text')
        return _b64.b64decode(s, *a, **k)


class BudgetExceeded(C.SxControl):
    pass


LOOP = {'budget': None, 'hits': []}


def sx_range(*a):
    if not any(isinstance(x, C.SymInt) for x in a):
        return range(*a)
    if LOOP['budget'] is None:
        return range(*[C._cidx(x) for x in a])
    if len(a) != 1:
        return range(*[C._cidx(x) for x in a])
    n = a[0]

    def gen():
        i = 0
        while True:
            if not (i < n):
                return          # one solver-decided fork per iteration
            if i >= LOOP['budget']:
                LOOP['hits'].append(i)
                raise BudgetExceeded(i)
            yield i
            i += 1
    return gen()


_real_isinstance = isinstance


def sx_isinstance(o, t):
    if _real_isinstance(o, C.SymInt):
        ts = t if _real_isinstance(t, tuple) else (t,)
        return int in ts or SxInt in ts
    if _real_isinstance(o, C.SymBytes):
        ts = t if _real_isinstance(t, tuple) else (t,)
        return bytes in ts or SxBytes in ts
    if _real_isinstance(o, C.SymBool):
        ts = t if _real_isinstance(t, tuple) else (t,)
        return bool in ts or int in ts or SxInt in ts
    if _real_isinstance(o, (C.SymBitStr, Rope, C.AsciiText, C.HexText, C.UniText, C.OpaqueText)):
        ts = t if _real_isinstance(t, tuple) else (t,)
        return str in ts
    return _real_isinstance(o, t)


def sx_ceil(x):
    if isinstance(x, C.SymRatio):
        return x.__ceil__()
    return _math.ceil(x)


def sx_floor(x):
    if isinstance(x, C.SymRatio):
        return x.__floor__()
    return _math.floor(x)


FAKE_MATH = types.SimpleNamespace(**{k: getattr(_math, k) for k in dir(_math) if not k.startswith('_')})
FAKE_MATH.ceil = sx_ceil
FAKE_MATH.floor = sx_floor


def sx_pow(x, y):
    """math.pow on small non-negative integers is exact in double precision: kept as an exact integer so that products
    with symbolic integers stay in the integer domain (results below 2^53: stated in the stub contract)"""
    if type(x) is int and type(y) is int and 0 <= y and abs(x) ** y < (1 << 53):
        return x ** y
    return _math.pow(x, y)


FAKE_MATH.pow = sx_pow

FAKE_HASHLIB = types.SimpleNamespace(sha256=C.sha256_stub, sha512=_hl.sha512, pbkdf2_hmac=_hl.pbkdf2_hmac,
                                     sha1=_hl.sha1, md5=_hl.md5, new=_hl.new)

_real_sorted = sorted


def sx_sorted(it, *a, **k):
    return _real_sorted(it, *a, **k)


class Finder(importlib.abc.MetaPathFinder, importlib.abc.Loader):
    def find_spec(self, name, path, target=None):
        if name != 'pytoniq_core' and not name.startswith('pytoniq_core.'):
            return None
        rel = name.replace('.', '/')
        for cand, pkg in ((f'{REPO}/{rel}/__init__.py', True), (f'{REPO}/{rel}.py', False)):
            if os.path.exists(cand):
                return importlib.util.spec_from_file_location(
                    name, cand, loader=self, submodule_search_locations=[os.path.dirname(cand)] if pkg else None)
        return None

    def create_module(self, spec):
        return None

    def exec_module(self, module):
        path = module.__spec__.origin
        with open(path, encoding='utf-8') as f:
            src = f.read()
        tree = T(module.__name__).visit(ast.parse(src, path))
        ast.fix_missing_locations(tree)
        g = module.__dict__
        g['__sx_getitem__'] = sx_getitem
        g['__sx_hash__'] = sx_hash
        g['__sx_fstr__'] = sx_fstr
        g['__sx_enter__'] = sx_enter
        g['__sx_join__'] = sx_join
        g['isinstance'] = sx_isinstance
        g['int'] = SxInt
        g['bytes'] = SxBytes
        g['len'] = sx_len
        g['bin'] = sx_bin
        g['range'] = sx_range
        exec(compile(tree, path, 'exec'), g)
        if g.get('hashlib') is _hl:
            g['hashlib'] = FAKE_HASHLIB
        if g.get('base64') is _b64:
            g['base64'] = B64Stub
        if g.get('math') is _math:
            g['math'] = FAKE_MATH


_installed = False


def install():
    global _installed
    if _installed:
        return
    here = os.path.dirname(os.path.abspath(__file__))
    sys.path.insert(0, os.path.join(here, 'model'))
    for m in list(sys.modules):
        if m == 'bitarray' or m.startswith('bitarray.') or m == 'pytoniq_core' or m.startswith('pytoniq_core.'):
            del sys.modules[m]
    sys.meta_path.insert(0, Finder())
    _installed = True
