"""Pure-Python model of the bitarray API subset used by pytoniq_core (semantics of bitarray 3.x, big-endian);
contents are sx.core.Bits (chunks of concrete '01' text or z3 terms).  Anything outside the subset raises
Unmodelled."""
import z3
from sx import core as C

__version__ = 'sx-model'


def _bit_to_bits(x):
    if isinstance(x, C.SymBool):
        return C.Bits.of_bv(z3.If(x.e, z3.BitVecVal(1, 1), z3.BitVecVal(0, 1)))
    if isinstance(x, C.SymInt):
        ok = (x == 0) | (x == 1) if not isinstance(x == 0, bool) else ((x == 0) or (x == 1))
        if not ok:
            raise ValueError('bit must be 0 or 1')
        return C.Bits.of_bv(z3.Extract(0, 0, x.e))
    if isinstance(x, (C.SymBitStr, str)):
        raise TypeError("'str' object cannot be interpreted as an integer")
    x = x.__index__()
    if x not in (0, 1):
        raise ValueError(f'bit must be 0 or 1, got {x}')
    return C.Bits.of_str('1' if x else '0')


def _bits_of(init):
    if init is None:
        return C.Bits.EMPTY
    if isinstance(init, bitarray):
        return init._b
    if isinstance(init, bool):
        raise TypeError('cannot create bitarray from bool')
    if isinstance(init, int):
        if init < 0:
            raise ValueError('bitarray length must be >= 0')
        return C.Bits.of_str('0' * init)
    if isinstance(init, str):
        out = []
        for ch in init:
            if ch in '01':
                out.append(ch)
            elif ch in ' _\n\t\r\v':
                continue
            else:
                raise ValueError(f"expected '0' or '1' (or whitespace, or underscore), got '{ch}' ({hex(ord(ch))})")
        return C.Bits.of_str(''.join(out))
    if isinstance(init, C.SymBitStr):
        return init.bits
    if isinstance(init, (bytes, bytearray, C.SymBytes)):
        raise TypeError('cannot extend bitarray with bytes-like object')
    return C.Bits.join([_bit_to_bits(x) for x in init])


def _item(b):
    if isinstance(b, int):
        return b
    return C.SymInt(z3.ZeroExt(1, b))


class bitarray:
    def __new__(cls, initializer=None, endian='big', buffer=None):
        if endian not in ('big', None):
            raise C.Unmodelled('little-endian bitarray')
        o = object.__new__(cls)
        o._b = _bits_of(initializer)
        return o

    def __init__(self, *a, **k):
        pass

    def _mk(self, bits):
        o = object.__new__(type(self))
        o._b = bits
        return o

    endian = 'big'

    def __len__(self):
        return self._b.n

    def __iter__(self):
        return (_item(b) for b in self._b.bitlist())

    def __bool__(self):
        return self._b.n > 0

    def copy(self):
        return self._mk(self._b)

    def append(self, v):
        self._b = self._b.concat(_bit_to_bits(v))

    def extend(self, x):
        self._b = self._b.concat(_bits_of(x))

    def frombytes(self, a):
        sb = C.SymBytes.lift(a)
        if sb is None:
            raise TypeError('bytes-like object expected')
        self._b = self._b.concat(sb.bits)

    @property
    def padbits(self):
        return (-self._b.n) % 8

    def fill(self):
        p = self.padbits
        if p:
            self._b = self._b.concat(C.Bits.of_str('0' * p))
        return p

    def tobytes(self):
        p = self.padbits
        b = self._b.concat(C.Bits.of_str('0' * p)) if p else self._b
        return C.mkbytes(b)

    def to01(self):
        return C.mkbitstr(self._b)

    def tolist(self):
        return [_item(b) for b in self._b.bitlist()]

    def pop(self, i=-1):
        n = self._b.n
        if n == 0:
            raise IndexError('pop from empty bitarray')
        i = C._cidx(i)
        if i < 0:
            i += n
        if not 0 <= i < n:
            raise IndexError('pop index out of range')
        r = self._b.bit(i)
        self._b = self._b.slice(0, i).concat(self._b.slice(i + 1, n))
        return _item(r)

    def __getitem__(self, k):
        n = self._b.n
        if isinstance(k, slice):
            k = C._cslice(k, n)
            if k.step in (None, 1):
                a, b, _ = k.indices(n)
                return self._mk(self._b.slice(a, max(a, b)))
            idx = range(*k.indices(n))
            return self._mk(C.Bits.join([self._b.slice(i, i + 1) for i in idx]))
        k = C._cidx(k)
        if k < 0:
            k += n
        if not 0 <= k < n:
            raise IndexError('bitarray index out of range')
        return _item(self._b.bit(k))

    def __setitem__(self, k, v):
        n = self._b.n
        if isinstance(k, slice):
            raise C.Unmodelled('slice assignment')
        k = C._cidx(k)
        if k < 0:
            k += n
        if not 0 <= k < n:
            raise IndexError('bitarray assignment index out of range')
        self._b = C.Bits.join([self._b.slice(0, k), _bit_to_bits(v), self._b.slice(k + 1, n)])

    def __delitem__(self, k):
        n = self._b.n
        if isinstance(k, slice):
            k = C._cslice(k, n)
            if k.step not in (None, 1):
                raise C.Unmodelled('extended slice deletion')
            a, b, _ = k.indices(n)
            b = max(a, b)
            self._b = self._b.slice(0, a).concat(self._b.slice(b, n))
            return
        k = C._cidx(k)
        if k < 0:
            k += n
        if not 0 <= k < n:
            raise IndexError('bitarray assignment index out of range')
        self._b = self._b.slice(0, k).concat(self._b.slice(k + 1, n))

    def __eq__(self, o):
        if not isinstance(o, bitarray):
            return NotImplemented
        r = self._b.eq(o._b)
        return r if isinstance(r, bool) else C.SymBool(r)

    def __ne__(self, o):
        r = self.__eq__(o)
        if r is NotImplemented:
            return r
        return (not r) if isinstance(r, bool) else ~r

    def __add__(self, o):
        if not isinstance(o, (bitarray, str, list, tuple, C.SymBitStr)):
            return NotImplemented
        return self._mk(self._b.concat(_bits_of(o)))

    def __iadd__(self, o):
        self.extend(o)
        return self

    def __mul__(self, k):
        return self._mk(C.Bits.join([self._b] * C._cidx(k)))

    def count(self, v=1):
        s = C.SymBitStr(self._b) if not self._b.is_concrete() else self._b.to_str()
        return s.count('1' if v else '0')

    def any(self):
        if self._b.is_concrete():
            return '1' in self._b.to_str()
        return C.mkbool(self._b.bv() != 0)

    def all(self):
        if self._b.is_concrete():
            return '0' not in self._b.to_str()
        return C.mkbool(~self._b.bv() == 0)

    def reverse(self):
        self._b = C.Bits.of_bitlist(list(reversed(self._b.bitlist())))

    def __repr__(self):
        return f"bitarray<model,{self._b.n}>"

    def __reduce__(self):
        raise C.Unmodelled('pickling')

    def __copy__(self):
        return self.copy()

    def __deepcopy__(self, memo):
        return self.copy()

    __hash__ = None


frozenbitarray = None


def bits2bytes(n):
    return (n + 7) // 8
