import z3
from sx import core as C
from . import bitarray


def int2ba(i, length=None, endian=None, signed=False):
    if not isinstance(i, (int, C.SymInt, C.SymBool)):
        raise TypeError("'%s' object cannot be interpreted as an integer" % type(i).__name__)
    if isinstance(i, C.SymBool):
        i = i._asint()
    if length is None:
        if isinstance(i, C.SymInt):
            raise C.Unmodelled('int2ba without length on a symbolic value')
        if signed:
            raise TypeError("signed requires argument 'length'")
        if i < 0:
            raise OverflowError('unsigned integer not in range(0, ...)')
        length = max(1, i.bit_length())
    length = C._cidx(length)
    if length <= 0:
        raise ValueError('length must be > 0')
    if signed:
        m = 1 << (length - 1)
        if not (-m <= i) or not (i < m):
            raise OverflowError(f'signed integer not in range({-m}, {m}), got {i}')
    else:
        if i < 0:
            raise OverflowError(f'unsigned integer not in range(0, {1 << length}), got {i}')
        if not (i < (1 << length)):
            raise OverflowError(f'unsigned integer not in range(0, {1 << length}), got {i}')
    a = bitarray()
    if isinstance(i, C.SymInt):
        e = C._sx(i.e, max(i.e.size(), length))
        a._b = C.Bits.of_bv(z3.Extract(length - 1, 0, e))
    else:
        a._b = C.bits_of_int(int(i), length)
    return a


def ba2int(a, signed=False):
    if not isinstance(a, bitarray):
        raise TypeError('bitarray expected')
    n = len(a)
    if n == 0:
        raise ValueError('non-empty bitarray expected')
    b = a._b
    if b.is_concrete():
        s = b.to_str()
        r = int(s, 2)
        if signed and s[0] == '1':
            r -= 1 << n
        return r
    e = b.bv()
    return C.mk(e) if signed else C.mk(z3.ZeroExt(1, e))


def zeros(n, endian=None):
    return bitarray(n)


def ones(n, endian=None):
    a = bitarray()
    a._b = C.Bits.of_str('1' * n)
    return a
