"""SX core: z3-backed leaf values and the path explorer.

The repository's own code is run by the ordinary interpreter on these values (see hook.py); every
branch on a symbolic condition is decided by the solver, paths are explored depth-first by
re-execution, and a property is an assertion whose negation is handed to the solver.
"""
import sys
import time
import hashlib as _real_hashlib
import z3

if hasattr(sys, 'set_int_max_str_digits'):
    sys.set_int_max_str_digits(0)      # z3's Python layer passes big constants as decimal text


# ------------------------------------------------------------------------------- control-flow exceptions
# BaseException on purpose: library code catching `Exception` / `ValueError` must never swallow them.
class SxControl(BaseException):
    pass


class Unmodelled(SxControl):
    """the engine cannot model this operation symbolically"""


class Inconclusive(SxControl):
    """solver answered unknown / a cap was hit: the current path cannot be decided"""


class PathInfeasible(SxControl):
    """an assumption made the current path infeasible"""


class PathLimit(SxControl):
    pass


# ------------------------------------------------------------------------------- engine
class Engine:
    cur = None

    def __init__(self, max_paths=20000, decide_timeout_ms=20000, final_timeout_ms=60000, theory='bv'):
        self.solver = z3.Solver()
        self.solver.set('timeout', decide_timeout_ms)
        self.max_paths = max_paths
        self.final_timeout_ms = final_timeout_ms
        self.theory = theory
        self.stats = dict(paths=0, decisions=0, forks=0, queries=0, solver_s=0.0, obligations=0,
                          by_rewriting=0, by_solver=0, inconclusive=0, infeasible_paths=0)
        self.prefix = []
        self.trace = []
        self.hashes = []
        self.inputs = {}
        self.symkeys = False
        self.loop_budget = None          # (budget, callback) for lazy symbolic ranges
        self.ufs = {}

    # -- low level
    def _check(self, *extra):
        t = time.time()
        r = self.solver.check(*extra)
        self.stats['solver_s'] += time.time() - t
        self.stats['queries'] += 1
        return r

    def _bb_check(self, extra):
        """second opinion for a branch the incremental core could not decide: bit-blasting tactic on a fresh solver"""
        if self.theory != 'bv':
            return z3.unknown
        t = time.time()
        try:
            fs = z3.Then('simplify', 'solve-eqs', 'bit-blast', 'sat').solver()
            fs.set('timeout', max(self.final_timeout_ms, 120000))
            fs.add(self.solver.assertions())
            fs.add(extra)
            return fs.check()
        except z3.Z3Exception:
            return z3.unknown
        finally:
            self.stats['solver_s'] += time.time() - t
            self.stats['queries'] += 1

    def begin_path(self, prefix):
        Engine.cur = self
        self.solver.reset()
        self.trace = []
        self.prefix = prefix
        self.hashes = []
        self.inputs = {}
        self.ufs_seen = {}
        self.uf_apps = []
        self.decided = {}
        self.concretized = {}
        self.stats['paths'] += 1
        if self.stats['paths'] > self.max_paths:
            raise PathLimit()

    def next_prefix(self):
        tr = self.trace
        while tr and not (tr[-1][0] and tr[-1][1]):
            tr.pop()
        if not tr:
            return None
        return tr[:-1] + [(False, False, tr[-1][2])]

    def add(self, c):
        self.solver.add(c)

    def decide(self, cond, note=None):
        if isinstance(cond, bool):
            return cond
        cond = z3.simplify(cond)
        if z3.is_true(cond):
            return True
        if z3.is_false(cond):
            return False
        key = cond.get_id()
        hit = self.decided.get(key)
        if hit is not None:
            return hit[0]          # already decided on this path: implied by the path condition (the term is kept alive)
        i = len(self.trace)
        if i < len(self.prefix):
            taken, alt = self.prefix[i][0], self.prefix[i][1]
            self.solver.add(cond if taken else z3.Not(cond))
            self.trace.append((taken, alt, note))
            self.decided[key] = (taken, cond)
            return taken
        self.stats['decisions'] += 1
        rt = self._check(cond)
        if rt == z3.unknown:
            rt = self._bb_check(cond)
        rf = self._check(z3.Not(cond))
        if rf == z3.unknown:
            rf = self._bb_check(z3.Not(cond))
        if rt == z3.unknown or rf == z3.unknown:
            self.stats['inconclusive'] += 1
            raise Inconclusive('solver unknown while deciding a branch')
        t_ok, f_ok = rt == z3.sat, rf == z3.sat
        if t_ok and f_ok:
            self.stats['forks'] += 1
        if t_ok:
            self.solver.add(cond)
            self.trace.append((True, f_ok, note))
            self.decided[key] = (True, cond)
            return True
        if f_ok:
            self.solver.add(z3.Not(cond))
            self.trace.append((False, False, note))
            self.decided[key] = (False, cond)
            return False
        raise PathInfeasible('path condition unsatisfiable')

    def assume(self, cond):
        cond = to_z3bool(cond)
        cond = z3.simplify(cond)
        if z3.is_true(cond):
            return
        if z3.is_false(cond) or self._check(cond) != z3.sat:
            self.stats['infeasible_paths'] += 1
            raise PathInfeasible('assumption infeasible')
        self.solver.add(cond)

    def concretize(self, expr, cap=2048):
        """enumerate the feasible values of a term by binary forks (complete up to `cap`).  The candidate value of each
        fork is recorded in the decision trace, so that a re-execution replays exactly the same candidates whatever
        model the solver happens to return (models are not stable across re-executions)."""
        done = self.concretized.get(expr.get_id())
        if done is not None:
            # already fixed on this path: no decision is made now, so none may be read from the replayed prefix either
            # (the next prefix entry belongs to some later decision)
            return done[1]
        n = 0
        while True:
            i = len(self.trace)
            if i < len(self.prefix) and self.prefix[i][2] is not None:
                raw = self.prefix[i][2]
            else:
                r = self._check()
                if r != z3.sat:
                    if r == z3.unknown:
                        self.stats['inconclusive'] += 1
                        raise Inconclusive('solver unknown in concretize')
                    raise PathInfeasible('infeasible in concretize')
                mv = self.solver.model().eval(expr, model_completion=True)
                raw = z3.is_true(mv) if z3.is_bool(expr) else mv.as_long()
            if z3.is_bool(expr):
                v = z3.BoolVal(bool(raw))
            elif z3.is_bv(expr):
                v = z3.BitVecVal(raw, expr.size())
            else:
                v = z3.IntVal(raw)
            if self.decide(expr == v, note=raw):
                r = bool(raw) if z3.is_bool(expr) else v
                self.concretized[expr.get_id()] = (expr, r)
                return r
            n += 1
            if n > cap:
                self.stats['inconclusive'] += 1
                raise Inconclusive('concretisation cap exceeded')

    # -- final queries
    def query(self, extra):
        """is pc /\\ extra satisfiable?  returns ('unsat'|'sat'|'unknown', model or None, how)"""
        self.stats['queries'] += 1
        t = time.time()
        try:
            extra_s = z3.simplify(extra)
            if z3.is_false(extra_s):
                return 'unsat', None, 'rewriting'
            if self.theory == 'bv':
                try:
                    fs = z3.Then('simplify', 'solve-eqs', 'bit-blast', 'sat').solver()
                    fs.set('timeout', self.final_timeout_ms)
                    fs.add(self.solver.assertions())
                    fs.add(extra_s)
                    r = fs.check()
                    if r == z3.unsat:
                        return 'unsat', None, 'z3:bit-blast+sat'
                except z3.Z3Exception:
                    r = z3.unknown
            else:
                r = z3.unknown
            # default core (also used to obtain a model that the incremental solver agrees with)
            self.solver.push()
            try:
                self.solver.add(extra_s)
                self.solver.set('timeout', self.final_timeout_ms)
                r2 = self.solver.check()
                if r2 == z3.sat:
                    return 'sat', self.solver.model(), 'z3:smt'
                if r2 == z3.unsat:
                    if r == z3.sat:
                        return 'unknown', None, 'solver disagreement'
                    return 'unsat', None, 'z3:smt'
                return 'unknown', None, 'unknown'
            finally:
                self.solver.pop()
        finally:
            self.stats['solver_s'] += time.time() - t

    def generic_model(self, extra):
        """a model of pc /\\ extra in which uninterpreted functions do not collide by accident (different arguments
        give different results): such models are far more likely to reproduce on the real primitive.  None if there is none."""
        apps = self.uf_apps
        if len(apps) < 2:
            return None
        cons = []
        for i in range(len(apps)):
            for j in range(i + 1, len(apps)):
                if apps[i][0] == apps[j][0]:
                    cons.append(z3.Implies(apps[i][1] != apps[j][1], apps[i][2] != apps[j][2]))
        if not cons:
            return None
        self.solver.push()
        try:
            self.solver.add(extra)
            self.solver.add(*cons)
            self.solver.set('timeout', 10000)
            if self.solver.check() == z3.sat:
                return self.solver.model()
            return None
        except z3.Z3Exception:
            return None
        finally:
            self.solver.pop()
            self.solver.set('timeout', 20000)

    def fresh_bv(self, name, n):
        v = z3.BitVec(name, n)
        self.inputs[name] = v
        return v

    def fresh_int(self, name):
        v = z3.Int(name)
        self.inputs[name] = v
        return v

    def model_inputs(self, model):
        out = {}
        for k, v in self.inputs.items():
            r = model.eval(v, model_completion=True)
            out[k] = r.as_long()
        return out

    def path_model(self):
        r = self._check()
        if r != z3.sat:
            return None
        return self.solver.model()


def E():
    return Engine.cur


def to_z3bool(c):
    if isinstance(c, SymBool):
        return c.e
    if isinstance(c, z3.BoolRef):
        return c
    if isinstance(c, (SymInt,)):
        return c.e != 0
    return z3.BoolVal(bool(c))


# ------------------------------------------------------------------------------- SymBool
class SymBool:
    __slots__ = ('e',)

    def __init__(self, e):
        self.e = e

    def __bool__(self):
        return E().decide(self.e)

    def __invert__(self):
        return mkbool(z3.Not(self.e))

    def __and__(self, o):
        return mkbool(z3.And(self.e, to_z3bool(o)))
    __rand__ = __and__

    def __or__(self, o):
        return mkbool(z3.Or(self.e, to_z3bool(o)))
    __ror__ = __or__

    def __xor__(self, o):
        return mkbool(z3.Xor(self.e, to_z3bool(o)))
    __rxor__ = __xor__

    def __eq__(self, o):
        if isinstance(o, (SymBool, bool)):
            return mkbool(self.e == to_z3bool(o))
        if isinstance(o, (int, SymInt)):
            return self._asint() == o
        return False

    def __ne__(self, o):
        r = self.__eq__(o)
        return (not r) if isinstance(r, bool) else ~r

    def _asint(self):
        return mk(z3.If(self.e, z3.BitVecVal(1, 2), z3.BitVecVal(0, 2)))

    def __index__(self):
        return 1 if bool(self) else 0
    __int__ = __index__

    def __add__(self, o): return self._asint() + o
    __radd__ = __add__
    def __mul__(self, o): return self._asint() * o
    __rmul__ = __mul__
    def __sub__(self, o): return self._asint() - o
    def __rsub__(self, o): return o - self._asint()

    __hash__ = None

    def __repr__(self):
        return 'SymBool'

    def __format__(self, spec):
        return '<symbolic bool>'


def mkbool(e):
    e = z3.simplify(e)
    if z3.is_true(e):
        return True
    if z3.is_false(e):
        return False
    return SymBool(e)


# ------------------------------------------------------------------------------- SymInt (signed BV, growing width)
def _w_of_int(i):
    return i.bit_length() + 1


def _lift(o):
    t = type(o)
    if t is SymInt:
        return o.e
    if t is int:
        return z3.BitVecVal(o, o.bit_length() + 1)
    if t is bool:
        return z3.BitVecVal(int(o), 2)
    if t is SymBool:
        return z3.If(o.e, z3.BitVecVal(1, 2), z3.BitVecVal(0, 2))
    if isinstance(o, int):
        o = int(o)
        return z3.BitVecVal(o, o.bit_length() + 1)
    return None


def _sx(e, w):
    s = e.size()
    return z3.SignExt(w - s, e) if s < w else e


def mk(e):
    """normalise a BV term into a python int (constant) or a SymInt (leading constant zeros narrowed away)"""
    e = z3.simplify(e)
    if z3.is_bv_value(e):
        return e.as_signed_long()
    if e.decl().kind() == z3.Z3_OP_CONCAT:
        first = e.arg(0)
        if z3.is_bv_value(first) and first.as_long() == 0 and first.size() > 1:
            rest = e.children()[1:]
            r = z3.Concat(rest) if len(rest) > 1 else rest[0]
            e = z3.ZeroExt(1, r)
    return SymInt(e)


def unsigned_bound(e):
    """syntactic: if e == ZeroExt(k>=1, y) (or Concat(0.., y)) then 0 <= e < 2**size(y)"""
    k = e.decl().kind()
    if k == z3.Z3_OP_ZERO_EXT:
        return 1 << e.arg(0).size()
    if k == z3.Z3_OP_CONCAT and z3.is_bv_value(e.arg(0)) and e.arg(0).as_long() == 0:
        return 1 << (e.size() - e.arg(0).size())
    return None


def _signed_val(v):
    return v.as_signed_long() if z3.is_bv_value(v) else v.as_long()


class SymInt:
    __slots__ = ('e',)

    def __init__(self, e):
        self.e = e

    def _bin(self, o, f, grow):
        b = _lift(o)
        if b is None:
            return NotImplemented
        a = self.e
        w = grow(a.size(), b.size())
        return mk(f(_sx(a, w), _sx(b, w)))

    def _rbin(self, o, f, grow):
        b = _lift(o)
        if b is None:
            return NotImplemented
        a = self.e
        w = grow(a.size(), b.size())
        return mk(f(_sx(b, w), _sx(a, w)))

    def __add__(self, o): return self._bin(o, lambda a, b: a + b, lambda x, y: max(x, y) + 1)
    def __radd__(self, o): return self._rbin(o, lambda a, b: a + b, lambda x, y: max(x, y) + 1)
    def __sub__(self, o): return self._bin(o, lambda a, b: a - b, lambda x, y: max(x, y) + 1)
    def __rsub__(self, o): return self._rbin(o, lambda a, b: a - b, lambda x, y: max(x, y) + 1)
    def __mul__(self, o): return self._bin(o, lambda a, b: a * b, lambda x, y: x + y)
    __rmul__ = __mul__
    def __and__(self, o): return self._bin(o, lambda a, b: a & b, max)
    __rand__ = __and__
    def __or__(self, o): return self._bin(o, lambda a, b: a | b, max)
    __ror__ = __or__
    def __xor__(self, o): return self._bin(o, lambda a, b: a ^ b, max)
    __rxor__ = __xor__
    def __neg__(self): return mk(-_sx(self.e, self.e.size() + 1))
    def __pos__(self): return self
    def __abs__(self):
        w = self.e.size() + 1
        a = _sx(self.e, w)
        return mk(z3.If(a < 0, -a, a))
    def __invert__(self): return mk(~self.e)

    def __lshift__(self, k):
        k = _cidx(k)
        if k < 0:
            raise ValueError('negative shift count')
        return mk(z3.Concat(self.e, z3.BitVecVal(0, k))) if k else self

    def __rshift__(self, k):
        k = _cidx(k)
        if k < 0:
            raise ValueError('negative shift count')
        w = self.e.size()
        if k >= w:
            return mk(z3.SignExt(1, z3.Extract(w - 1, w - 1, self.e)))
        return mk(z3.Extract(w - 1, k, self.e)) if k else self

    def __rlshift__(self, o):
        return o << self.__index__()

    def __rrshift__(self, o):
        return o >> self.__index__()

    def __mod__(self, m):
        if isinstance(m, int) and m > 0:
            if m & (m - 1) == 0:
                k = m.bit_length() - 1
                if k == 0:
                    return 0
                a = _sx(self.e, max(self.e.size(), k + 1))
                return mk(z3.ZeroExt(1, z3.Extract(k - 1, 0, a)))
            w = max(self.e.size(), m.bit_length() + 1) + 1
            a = _sx(self.e, w)
            mm = z3.BitVecVal(m, w)
            r = z3.SRem(a, mm)
            return mk(z3.If(r < 0, r + mm, r))
        raise Unmodelled('mod by non-constant')

    def __floordiv__(self, m):
        if isinstance(m, int) and m > 0:
            if m & (m - 1) == 0:
                return self >> (m.bit_length() - 1)
            w = max(self.e.size(), m.bit_length() + 1) + 1
            a = _sx(self.e, w)
            mm = z3.BitVecVal(m, w)
            q = a / mm   # signed division truncating toward zero
            r = z3.SRem(a, mm)
            return mk(z3.If(r < 0, q - 1, q))
        raise Unmodelled('floordiv by non-constant')

    def __truediv__(self, m):
        if isinstance(m, int) and m > 0:
            return SymRatio(self, m)
        raise Unmodelled('truediv')

    def __divmod__(self, m):
        return self // m, self % m

    def __pow__(self, k):
        if isinstance(k, int) and 0 <= k <= 4:
            r = 1
            for _ in range(k):
                r = self * r
            return r
        raise Unmodelled('pow')

    def __rpow__(self, base):
        return base ** self.__index__()

    def _cmp(self, o, f):
        b = _lift(o)
        if b is None:
            return NotImplemented
        w = max(self.e.size(), b.size())
        r = z3.simplify(f(_sx(self.e, w), _sx(b, w)))
        if z3.is_true(r):
            return True
        if z3.is_false(r):
            return False
        return SymBool(r)

    def __eq__(self, o): return self._cmp(o, lambda a, b: a == b)
    def __ne__(self, o): return self._cmp(o, lambda a, b: a != b)
    def __lt__(self, o): return self._cmp(o, lambda a, b: a < b)
    def __le__(self, o): return self._cmp(o, lambda a, b: a <= b)
    def __gt__(self, o): return self._cmp(o, lambda a, b: a > b)
    def __ge__(self, o): return self._cmp(o, lambda a, b: a >= b)

    def __bool__(self):
        return E().decide(self.e != 0)

    def __index__(self):
        v = E().concretize(self.e)
        return v.as_signed_long()
    __int__ = __index__

    def __float__(self):
        raise Unmodelled('float(symbolic int)')

    def __str__(self):
        return str(self.__index__())

    def __hash__(self):
        if E() is not None and E().symkeys:
            return 0
        if E() is not None and self.e.size() > 5:
            # a wide symbolic integer used as a key (dict, set, cache): followed under-approximately for two solver-chosen
            # values (a path each); the path of all remaining values ends as inconclusive - never as discharged
            return hash(_signed_val(E().concretize(self.e, cap=1)))
        return hash(self.__index__())

    def bit_length(self):
        """symbolic: a chain of if-then-else over the magnitude classes - no fork here; a fork happens only where the
        result is needed as a concrete number (and then only per class that is still feasible)"""
        w = self.e.size()
        a = _sx(self.e, w + 1)
        a = z3.If(a < 0, -a, a)
        rw = (w + 1).bit_length() + 1
        r = z3.BitVecVal(w, rw)
        for k in range(w - 1, -1, -1):
            r = z3.If(z3.ULT(a, z3.BitVecVal(1 << k, w + 1)), z3.BitVecVal(k, rw), r)
        return mk(r)

    def to_bytes(self, length=1, byteorder='big', *, signed=False):
        length = _cidx(length)
        n = 8 * length
        if signed:
            lo = self >= -(1 << (n - 1)) if n else self >= 0
            hi = self < (1 << (n - 1)) if n else self <= 0
            if not lo or not hi:
                raise OverflowError('int too big to convert')
        else:
            ub = unsigned_bound(self.e)
            if ub is None or ub > (1 << n):
                if not (self >= 0):
                    raise OverflowError("can't convert negative int to unsigned")
                if not (self < (1 << n)):
                    raise OverflowError('int too big to convert')
        if n == 0:
            return b''
        w = self.e.size()
        bits = z3.Extract(n - 1, 0, _sx(self.e, max(w, n)))
        if byteorder == 'little':
            bits = z3.Concat([z3.Extract(8 * i + 7, 8 * i, bits) for i in range(length)]) if length > 1 else bits
        elif byteorder != 'big':
            raise ValueError("byteorder must be either 'little' or 'big'")
        return mkbytes(Bits.of_bv(bits))

    def __repr__(self):
        return f'SymInt<{self.e.size()}>'

    def __format__(self, spec):
        return '<symbolic int>'


def _cidx(k):
    if type(k) is int:
        return k
    return k.__index__()


class SymRatio:
    """exact ratio num/den with den a positive constant (result of `sym / const`)"""
    def __init__(self, num, den):
        self.num, self.den = num, den

    def __ceil__(self):
        return (self.num + (self.den - 1)) // self.den

    def __floor__(self):
        return self.num // self.den

    def __int__(self):
        raise Unmodelled('int(ratio)')


def sym_uint(bv):
    """unsigned value of a BV term as SymInt/int"""
    return mk(z3.ZeroExt(1, bv))


def sym_sint(bv):
    return mk(bv)


# ------------------------------------------------------------------------------- Bits: chunked bit strings
def _norm_chunk(e):
    e = z3.simplify(e)
    if z3.is_bv_value(e):
        return format(e.as_long(), '0%db' % e.size())
    return e


class Bits:
    """immutable bit string (index 0 = first/most significant bit); chunks are '01'-strings or z3 BV terms"""
    __slots__ = ('ch', 'n')

    def __init__(self, chunks, n=None):
        self.ch = chunks
        self.n = n if n is not None else sum(len(c) if type(c) is str else c.size() for c in chunks)

    EMPTY = None

    @staticmethod
    def of_str(s):
        return Bits((s,), len(s)) if s else Bits.EMPTY

    @staticmethod
    def of_bv(e):
        c = _norm_chunk(e)
        return Bits((c,), e.size())

    @staticmethod
    def of_bitlist(bits):
        out = []
        cur = []
        for b in bits:
            if type(b) is int:
                cur.append('1' if b else '0')
            else:
                if cur:
                    out.append(''.join(cur))
                    cur = []
                out.append(b)
        if cur:
            out.append(''.join(cur))
        return Bits(tuple(out))

    def __len__(self):
        return self.n

    def is_concrete(self):
        return all(type(c) is str for c in self.ch)

    def to_str(self):
        return ''.join(self.ch)

    def concat(self, o):
        if not o.n:
            return self
        if not self.n:
            return o
        a, b = self.ch, o.ch
        if type(a[-1]) is str and type(b[0]) is str:
            return Bits(a[:-1] + (a[-1] + b[0],) + b[1:], self.n + o.n)
        return Bits(a + b, self.n + o.n)

    @staticmethod
    def join(parts):
        out = []
        n = 0
        for p in parts:
            if not p.n:
                continue
            n += p.n
            for c in p.ch:
                if out and type(c) is str and type(out[-1]) is str:
                    out[-1] = out[-1] + c
                else:
                    out.append(c)
        return Bits(tuple(out), n)

    def slice(self, a, b):
        a = max(0, min(a, self.n))
        b = max(a, min(b, self.n))
        if a == 0 and b == self.n:
            return self
        if a == b:
            return Bits.EMPTY
        out = []
        pos = 0
        for c in self.ch:
            w = len(c) if type(c) is str else c.size()
            lo, hi = max(a, pos), min(b, pos + w)
            if lo < hi:
                if lo == pos and hi == pos + w:
                    piece = c
                elif type(c) is str:
                    piece = c[lo - pos: hi - pos]
                else:
                    piece = _norm_chunk(z3.Extract(w - 1 - (lo - pos), w - (hi - pos), c))
                if out and type(piece) is str and type(out[-1]) is str:
                    out[-1] = out[-1] + piece
                else:
                    out.append(piece)
            pos += w
            if pos >= b:
                break
        return Bits(tuple(out), b - a)

    def bit(self, i):
        """int 0/1 or BV1 term"""
        if i < 0:
            i += self.n
        if not 0 <= i < self.n:
            raise IndexError('bit index out of range')
        pos = 0
        for c in self.ch:
            w = len(c) if type(c) is str else c.size()
            if i < pos + w:
                if type(c) is str:
                    return 1 if c[i - pos] == '1' else 0
                r = z3.simplify(z3.Extract(w - 1 - (i - pos), w - 1 - (i - pos), c))
                if z3.is_bv_value(r):
                    return r.as_long()
                return r
            pos += w

    def bitlist(self):
        out = []
        for c in self.ch:
            if type(c) is str:
                out.extend(1 if x == '1' else 0 for x in c)
            else:
                w = c.size()
                for k in range(w):
                    r = z3.simplify(z3.Extract(w - 1 - k, w - 1 - k, c))
                    out.append(r.as_long() if z3.is_bv_value(r) else r)
        return out

    def bv(self):
        if not self.n:
            raise ValueError('empty bit string has no bit-vector')
        es = [z3.BitVecVal(int(c, 2), len(c)) if type(c) is str else c for c in self.ch]
        return z3.Concat(es) if len(es) > 1 else es[0]

    def eq(self, o):
        """bool or z3 Bool"""
        if self.n != o.n:
            return False
        if not self.n:
            return True
        if self.is_concrete() and o.is_concrete():
            return self.to_str() == o.to_str()
        r = z3.simplify(self.bv() == o.bv())
        if z3.is_true(r):
            return True
        if z3.is_false(r):
            return False
        return r

    def reversed_bytes(self):
        assert self.n % 8 == 0
        k = self.n // 8
        return Bits.join([self.slice(8 * i, 8 * i + 8) for i in reversed(range(k))])


Bits.EMPTY = Bits((), 0)


def bits_of_int(v, n):
    """n-bit two's complement of a python int"""
    return Bits.of_str(format(v & ((1 << n) - 1), '0%db' % n)) if n else Bits.EMPTY


# ------------------------------------------------------------------------------- SymBytes
class SymBytes:
    """byte string of concrete length whose contents are (partly) symbolic"""
    __slots__ = ('bits',)

    def __init__(self, bits):
        self.bits = bits

    @staticmethod
    def lift(x):
        if type(x) is SymBytes:
            return x
        if isinstance(x, (bytes, bytearray, memoryview)):
            x = bytes(x)
            return SymBytes(Bits.of_str(''.join(format(b, '08b') for b in x)))
        return None

    def __len__(self):
        return self.bits.n // 8

    def _item(self, i):
        b = self.bits.slice(8 * i, 8 * i + 8)
        if b.is_concrete():
            return int(b.to_str(), 2)
        return SymInt(z3.ZeroExt(1, b.bv()))

    def __getitem__(self, k):
        n = len(self)
        if isinstance(k, slice):
            k = _cslice(k, n)
            if k.step in (None, 1):
                a, b, _ = k.indices(n)
                return mkbytes(self.bits.slice(8 * a, 8 * max(a, b)))
            idx = range(*k.indices(n))
            return mkbytes(Bits.join([self.bits.slice(8 * i, 8 * i + 8) for i in idx]))
        k = _cidx(k)
        if k < 0:
            k += n
        if not 0 <= k < n:
            raise IndexError('index out of range')
        return self._item(k)

    def __iter__(self):
        for i in range(len(self)):
            yield self._item(i)

    def __add__(self, o):
        o = SymBytes.lift(o)
        if o is None:
            return NotImplemented
        return mkbytes(self.bits.concat(o.bits))

    def __radd__(self, o):
        o = SymBytes.lift(o)
        if o is None:
            return NotImplemented
        return mkbytes(o.bits.concat(self.bits))

    def __mul__(self, k):
        return mkbytes(Bits.join([self.bits] * _cidx(k)))

    def __eq__(self, o):
        o = SymBytes.lift(o)
        if o is None:
            return False
        r = self.bits.eq(o.bits)
        return r if isinstance(r, bool) else SymBool(r)

    def __ne__(self, o):
        r = self.__eq__(o)
        return (not r) if isinstance(r, bool) else ~r

    def bv(self):
        return self.bits.bv()

    def _ord(self, o, f, eq_result):
        o = SymBytes.lift(o)
        if o is None:
            return NotImplemented
        if len(o) != len(self):
            raise Unmodelled('ordering of byte strings of different length')
        if not len(self):
            return eq_result
        return mkbool(f(self.bv(), o.bv()))

    def __lt__(self, o): return self._ord(o, z3.ULT, False)
    def __gt__(self, o): return self._ord(o, z3.UGT, False)
    def __le__(self, o): return self._ord(o, z3.ULE, True)
    def __ge__(self, o): return self._ord(o, z3.UGE, True)

    def __xor__(self, o):
        o = SymBytes.lift(o)
        if len(o) != len(self):
            raise Unmodelled('xor of different lengths')
        return mkbytes(Bits.of_bv(self.bv() ^ o.bv()))

    def hex(self):
        return HexText(self)

    def decode(self, *a, **k):
        enc = (a[0] if a else k.get('encoding', 'utf-8')).lower().replace('-', '').replace('_', '')
        if enc in ('utf8', 'u8') and E() is not None and len(self):
            hi = int('80' * len(self), 16)
            if not E().decide((self.bv() & hi) == 0):
                try:
                    return UniText.from_utf8(self)
                except Unmodelled:
                    # arbitrary symbolic bytes: the real decoder either returns some text or raises UnicodeDecodeError.
                    # The result is kept as an opaque value (any use of its contents is Unmodelled); going on where the
                    # real code might have stopped with an error over-approximates the behaviour, which is sound for the
                    # bounds proved on such paths and can at worst yield a candidate that does not reproduce
                    return OpaqueText(self)
        return AsciiText(self)

    def __hash__(self):
        if E() is not None and E().symkeys:
            return 0
        if E() is None:
            raise Unmodelled('hash of symbolic bytes')
        # symbolic bytes used as a key (dict, set, cache): followed under-approximately for two solver-chosen values (a path
        # each, the bytes then being fixed on that path); the path of all remaining values ends as inconclusive
        v = E().concretize(self.bv(), cap=1)
        return hash(v.as_long().to_bytes(len(self), 'big'))

    def __bool__(self):
        return len(self) > 0

    def __repr__(self):
        return f'SymBytes<{len(self)}>'

    def __format__(self, spec):
        return '<symbolic bytes>'

    def startswith(self, p):
        p = SymBytes.lift(p)
        if len(p) > len(self):
            return False
        return self[:len(p)] == p


def mkbytes(bits):
    if bits.is_concrete():
        s = bits.to_str()
        return int(s, 2).to_bytes(len(s) // 8, 'big') if s else b''
    return SymBytes(bits)


def bytes_bits(x):
    """Bits of bytes / SymBytes"""
    return SymBytes.lift(x).bits


class HexText:
    """hex rendering of (symbolic) bytes"""
    def __init__(self, b):
        self.b = b

    def __format__(self, spec):
        return '<symbolic hex>'

    def __str__(self):
        return '<symbolic hex>'

    def upper(self):
        return self

    def lower(self):
        return self

    def __eq__(self, o):
        if isinstance(o, HexText):
            return self.b == o.b
        return False

    def __hash__(self):
        return 0


class AsciiText:
    """text whose characters are the (7-bit) items of symbolic bytes"""
    def __init__(self, b):
        self.b = b

    def encode(self, *a, **k):
        return self.b

    def __len__(self):
        return len(self.b)

    def __eq__(self, o):
        if isinstance(o, AsciiText):
            return self.b == o.b
        if isinstance(o, str):
            try:
                return self.b == o.encode('ascii')
            except UnicodeEncodeError:
                return False
        return False

    def __ne__(self, o):
        r = self.__eq__(o)
        return (not r) if isinstance(r, bool) else ~r

    def __hash__(self):
        return 0

    def __format__(self, spec):
        return '<symbolic text>'


class OpaqueText:
    """result of decoding symbolic bytes that are not known to be valid UTF-8: may be stored and passed on, not inspected"""
    def __init__(self, b):
        self.b = b

    def _un(self, *a, **k):
        raise Unmodelled('contents of text decoded from unconstrained symbolic bytes')

    __len__ = __eq__ = __ne__ = encode = __iter__ = __getitem__ = __add__ = __radd__ = _un

    def __hash__(self):
        return 0

    def __format__(self, spec):
        return '<symbolic text>'


UNI_PAYLOAD = {1: 7, 2: 11, 3: 16}


def uni_layout(classes):
    """bit offsets (from the most significant end) of each character's code-point bits inside one input integer"""
    return sum(UNI_PAYLOAD[c] for c in classes)


def uni_valid(cls, cp):
    """validity of a code point for its UTF-8 length class (shortest form, no surrogates); works on ints and z3 terms"""
    if cls == 1:
        return True
    if cls == 2:
        return cp >= 0x80
    lo, hi = 0xD800, 0xDFFF
    if isinstance(cp, int):
        return cp >= 0x800 and not (lo <= cp <= hi)
    return z3.And(z3.UGE(cp, 0x800), z3.Or(z3.ULT(cp, lo), z3.UGT(cp, hi)))


class UniText:
    """text given by its UTF-8 encoding (symbolic bytes) and the encoded length of each character (concrete: 1, 2 or 3):
    len() counts characters, encode() gives the bytes"""
    def __init__(self, b, classes):
        self.b, self.classes = b, tuple(classes)

    @staticmethod
    def build(cps):
        """from [(class, code point: int or z3 bit-vector of UNI_PAYLOAD[class] bits)]"""
        parts = []
        for cls, cp in cps:
            v = cp if not isinstance(cp, int) else z3.BitVecVal(cp, UNI_PAYLOAD[cls])
            if cls == 1:
                parts.append(z3.Concat(z3.BitVecVal(0, 1), v))
            elif cls == 2:
                parts += [z3.Concat(z3.BitVecVal(0b110, 3), z3.Extract(10, 6, v)), z3.Concat(z3.BitVecVal(0b10, 2), z3.Extract(5, 0, v))]
            else:
                parts += [z3.Concat(z3.BitVecVal(0b1110, 4), z3.Extract(15, 12, v)), z3.Concat(z3.BitVecVal(0b10, 2), z3.Extract(11, 6, v)),
                          z3.Concat(z3.BitVecVal(0b10, 2), z3.Extract(5, 0, v))]
        bv = z3.Concat(*parts) if len(parts) > 1 else parts[0]
        return UniText(mkbytes(Bits.of_bv(bv)), [c for c, _ in cps])

    @staticmethod
    def from_utf8(b):
        """classify the lead bytes syntactically (their marker bits are constants in every text this engine builds)"""
        classes, i, n = [], 0, len(b)
        bv = b.bv()

        def top(k, width):
            t = z3.simplify(z3.Extract(8 * (n - k) - 1, 8 * (n - k) - width, bv))
            return t.as_long() if z3.is_bv_value(t) else None
        while i < n:
            if top(i, 1) == 0:
                cls = 1
            elif top(i, 3) == 0b110:
                cls = 2
            elif top(i, 4) == 0b1110:
                cls = 3
            else:
                raise Unmodelled('UTF-8 decoding of symbolic bytes whose lead-byte class is not fixed')
            if i + cls > n or any(top(i + j, 2) != 0b10 for j in range(1, cls)):
                raise Unmodelled('UTF-8 decoding: continuation bytes not fixed')
            classes.append(cls)
            i += cls
        return UniText(b, classes)

    def encode(self, *a, **k):
        enc = (a[0] if a else k.get('encoding', 'utf-8')).lower().replace('-', '').replace('_', '')
        if enc not in ('utf8', 'u8'):
            raise Unmodelled('encoding symbolic text other than as UTF-8')
        return self.b

    def __len__(self):
        return len(self.classes)

    def __eq__(self, o):
        if isinstance(o, UniText):
            return self.classes == o.classes and self.b == o.b
        if isinstance(o, AsciiText):
            return all(c == 1 for c in self.classes) and len(o) == len(self) and self.b == o.b
        if isinstance(o, str):
            e = o.encode('utf-8')
            return len(o) == len(self) and len(e) == len(self.b) and self.b == e
        return False

    def __ne__(self, o):
        r = self.__eq__(o)
        return (not r) if isinstance(r, bool) else ~r

    def __hash__(self):
        return 0

    def __format__(self, spec):
        return '<symbolic text>'


def _cslice(k, n=None):
    """concrete slice for a (partly) symbolic one.  With the length n of the sliced object known and a unit step, a
    symbolic bound is first clamped the way slicing clamps it (everything >= n acts like n, everything < -n like 0):
    one fork per bound instead of one per value, exact for slices"""
    def c(x):
        return x if x is None or type(x) is int else x.__index__()

    def cc(x):
        if x is None or type(x) is int:
            return x
        if x >= n:
            return n
        if x < -n:
            return 0
        return x.__index__()
    if n is not None and (k.step is None or (type(k.step) is int and k.step == 1)):
        return slice(cc(k.start), cc(k.stop), k.step)
    return slice(c(k.start), c(k.stop), c(k.step))


# ------------------------------------------------------------------------------- SymBitStr (what bitarray.to01() returns)
class SymBitStr:
    __slots__ = ('bits',)

    def __init__(self, bits):
        self.bits = bits

    def __len__(self):
        return self.bits.n

    def __eq__(self, o):
        if isinstance(o, str):
            if any(ch not in '01' for ch in o):
                return False
            o = SymBitStr(Bits.of_str(o))
        if isinstance(o, SymBitStr):
            r = self.bits.eq(o.bits)
            return r if isinstance(r, bool) else SymBool(r)
        return False

    def __ne__(self, o):
        r = self.__eq__(o)
        return (not r) if isinstance(r, bool) else ~r

    def __getitem__(self, k):
        n = self.bits.n
        if isinstance(k, slice):
            k = _cslice(k)
            if k.step in (None, 1):
                a, b, _ = k.indices(n)
                return mkbitstr(self.bits.slice(a, max(a, b)))
            idx = range(*k.indices(n))
            return mkbitstr(Bits.join([self.bits.slice(i, i + 1) for i in idx]))
        k = _cidx(k)
        if k < 0:
            k += n
        if not 0 <= k < n:
            raise IndexError('string index out of range')
        return mkbitstr(self.bits.slice(k, k + 1))

    def __add__(self, o):
        if isinstance(o, str):
            return mkbitstr(self.bits.concat(Bits.of_str(o)))
        if isinstance(o, SymBitStr):
            return mkbitstr(self.bits.concat(o.bits))
        return NotImplemented

    def __radd__(self, o):
        if isinstance(o, str):
            return mkbitstr(Bits.of_str(o).concat(self.bits))
        return NotImplemented

    def __mul__(self, k):
        return mkbitstr(Bits.join([self.bits] * _cidx(k)))
    __rmul__ = __mul__

    def __iter__(self):
        for i in range(self.bits.n):
            yield mkbitstr(self.bits.slice(i, i + 1))

    def _ordcmp(self, o, f):
        if isinstance(o, str):
            o = SymBitStr(Bits.of_str(o))
        if len(o) != len(self):
            raise Unmodelled('ordering of bit strings of different length')
        if not len(self):
            return False
        return mkbool(f(self.bits.bv(), o.bits.bv()))

    def __lt__(self, o): return self._ordcmp(o, z3.ULT)
    def __gt__(self, o): return self._ordcmp(o, z3.UGT)
    def __le__(self, o):
        r = self.__gt__(o)
        return (not r) if isinstance(r, bool) else ~r
    def __ge__(self, o):
        r = self.__lt__(o)
        return (not r) if isinstance(r, bool) else ~r

    def startswith(self, prefix, start=0):
        if isinstance(prefix, tuple):
            r = False
            for p in prefix:
                x = self.startswith(p, start)
                if x is True:
                    return True
                r = x if r is False else (r | x if x is not False else r)
            return r
        k = len(prefix)
        if start + k > len(self):
            return False
        return self[start:start + k] == prefix

    def endswith(self, suffix):
        k = len(suffix)
        if k > len(self):
            return False
        return self[len(self) - k:] == suffix

    def find(self, ch):
        if ch not in ('0', '1'):
            raise Unmodelled('find of a longer pattern')
        for i in range(self.bits.n):
            r = self[i] == ch
            if r if isinstance(r, bool) else bool(r):
                return i
        return -1

    def count(self, ch):
        if ch not in ('0', '1'):
            raise Unmodelled('count of a longer pattern')
        n = 0
        for i in range(self.bits.n):
            n = n + sym_uint(self.bits.slice(i, i + 1).bv()) if True else n
        if ch == '0':
            return self.bits.n - n
        return n

    def __hash__(self):
        if E() is not None and E().symkeys:
            return 0
        return hash(self.concretize())

    def concretize(self):
        out = []
        for c in self.bits.ch:
            if type(c) is str:
                out.append(c)
            else:
                v = E().concretize(c)
                out.append(format(v.as_long(), '0%db' % c.size()))
        return ''.join(out)

    def __str__(self):
        return self.concretize()

    def __format__(self, spec):
        return '<symbolic bits>'

    def __repr__(self):
        return f'SymBitStr<{self.bits.n}>'


def mkbitstr(bits):
    if bits.is_concrete():
        return bits.to_str()
    return SymBitStr(bits)


# ------------------------------------------------------------------------------- SHA-256 as an injective uninterpreted function
class sha256_stub:
    """Contract: a function (equal pre-images => equal digests) without collisions (different pre-images =>
    different digests), instantiated pairwise over the digests taken on the current path."""
    digest_size = 32
    block_size = 64
    name = 'sha256'

    def __init__(self, data=b''):
        self.parts = []
        if len(data):
            self.update(data)

    def update(self, data):
        if isinstance(data, (bytearray, memoryview)):
            data = bytes(data)
        if not isinstance(data, (bytes, SymBytes)):
            raise TypeError('object supporting the buffer API required')
        self.parts.append(data)

    def copy(self):
        c = sha256_stub()
        c.parts = list(self.parts)
        return c

    def digest(self):
        eng = E()
        if all(isinstance(p, bytes) for p in self.parts):
            pre = b''.join(self.parts)
            d = _real_hashlib.sha256(pre).digest()
            if eng is not None and eng.hashes is not None:
                if not any(isinstance(q, bytes) and q == pre for (q, m, g) in eng.hashes):
                    # tie the concrete digest to the symbolic digests taken earlier on this path (same axioms, other order)
                    dv = z3.BitVecVal(int.from_bytes(d, 'big'), 256)
                    for (q, m, g) in eng.hashes:
                        if isinstance(q, bytes):
                            continue
                        if m == len(pre) and m:
                            eng.solver.add((q == z3.BitVecVal(int.from_bytes(pre, 'big'), 8 * m)) == (g == dv))
                        else:
                            eng.solver.add(g != dv)
                    eng.hashes.append((pre, len(pre), d))
            return d
        pre = Bits.join([bytes_bits(p) for p in self.parts])
        n = pre.n // 8
        pbv = z3.simplify(pre.bv())
        for (q, m, h) in eng.hashes:
            if m == n and not isinstance(q, bytes) and q.eq(pbv):
                return mkbytes(Bits.of_bv(h))
        h = z3.BitVec(f'sha#{len(eng.hashes)}', 256)
        for (q, m, g) in eng.hashes:
            if isinstance(q, bytes):
                gv = z3.BitVecVal(int.from_bytes(g, 'big'), 256)
                if m == n:
                    eng.solver.add((z3.BitVecVal(int.from_bytes(q, 'big'), 8 * m) == pbv) == (gv == h))
                else:
                    eng.solver.add(gv != h)
            elif m == n:
                eng.solver.add((q == pbv) == (g == h))
            else:
                eng.solver.add(g != h)
        eng.hashes.append((pbv, n, h))
        return mkbytes(Bits.of_bv(h))

    def hexdigest(self):
        d = self.digest()
        return d.hex()


def uf_bytes(name, arg, out_len):
    """memoised uninterpreted function bytes -> out_len bytes (functional consistency only)"""
    eng = E()
    a = SymBytes.lift(arg)
    n = len(a)
    f = z3.Function(f'{name}_{n}', z3.BitVecSort(max(8 * n, 1)), z3.BitVecSort(8 * out_len))
    abv = a.bits.bv() if n else z3.BitVecVal(0, 1)
    out = f(abv)
    if eng is not None:
        eng.uf_apps.append((f'{name}_{n}', abv, out))
    return mkbytes(Bits.of_bv(out))
