"""Check driver:  python -m sx.runner check <Cxx> [--tier quick|thorough]   |   python -m sx.runner replay <file>

Exit codes: 0 = no violation outside the known-findings file (evidence written); 1 = replay-confirmed violation
(line `VIOLATION property=<id> replay=<path>`); 2 = nothing at all could be decided (vacuous run).
"""
import argparse
import hashlib
import importlib
import json
import multiprocessing as mp
import os
import random
import signal
import subprocess
import sys
import time
import traceback

HERE = os.path.dirname(os.path.dirname(os.path.abspath(__file__)))
REPO = os.environ.get('SX_REPO', '/repo')
EVID = os.environ.get('SX_EVID') or os.path.join(HERE, 'evidence')
REPLAYS = os.environ.get('SX_REPLAYS') or os.path.join(HERE, 'replays')

_W = {}


# ------------------------------------------------------------------------------- worker side
def worker_init(module_name):
    sys.setrecursionlimit(max(sys.getrecursionlimit(), 1000))
    if HERE not in sys.path:
        sys.path.insert(0, HERE)
    from sx import hook
    hook.install()
    _W['hook'] = hook
    _W['module'] = importlib.import_module(module_name)
    _W['module_name'] = module_name
    _W['conc'] = None
    signal.signal(signal.SIGINT, signal.SIG_IGN)


def _conc_child():
    p = _W.get('conc')
    if p is None or p.poll() is not None:
        env = dict(os.environ)
        env['SX_REPO'] = REPO
        env['PYTHONPATH'] = HERE
        p = subprocess.Popen([sys.executable, '-m', 'sx.concrete'], stdin=subprocess.PIPE, stdout=subprocess.PIPE,
                             cwd=HERE, env=env, text=True)
        _W['conc'] = p
    return p


def concrete_run(harness, params, inputs, fill=None):
    p = _conc_child()
    req = dict(module=_W['module_name'], harness=harness, params=params, inputs={k: hex(v) for k, v in inputs.items()})
    if fill is not None:
        req['fill'] = fill
    p.stdin.write(json.dumps(req) + '\n')
    p.stdin.flush()
    line = p.stdout.readline()
    if not line:
        _W['conc'] = None
        return dict(error='concrete worker died')
    return json.loads(line)


class _Alarm(BaseException):
    pass


def _on_alarm(signum, frame):
    signal.alarm(2)          # re-arm: an exception raised inside a destructor or trace callback is swallowed by the interpreter
    raise _Alarm()


def run_instance(task):
    from sx import core as C
    from sx.api import SymCtx, conc_plain
    hook = _W['hook']
    mod = _W['module']
    hname, params = task['harness'], task['params']
    fn = getattr(mod, hname)
    t0 = time.time()
    eng = C.Engine(theory=getattr(fn, 'theory', 'bv'), max_paths=getattr(fn, 'max_paths', 4000),
                   final_timeout_ms=task.get('final_timeout_ms', 60000))
    eng.symkeys = getattr(fn, 'symkeys', False)
    res = dict(idx=task['idx'], harness=hname, params=params, paths=0, violations=[], obligations=0, inconclusive=[],
               mismatches=[], witnesses=0, witness_sample=None, labels={}, how={}, infeasible=0, error=None)
    rnd = random.Random(task['seed'] * 1000003 + task['idx'])
    wit_budget = task.get('witnesses', 1)
    hook.reset_counts()
    signal.signal(signal.SIGALRM, _on_alarm)
    signal.alarm(int(task.get('instance_timeout', 300)))
    prefix = []
    try:
        while prefix is not None:
            try:
                eng.begin_path(prefix)
            except C.PathLimit:
                res['inconclusive'].append('path limit reached')
                break
            ctx = SymCtx(eng, task['known'])
            hook.LOOP['budget'] = None
            hook.LOOP['hits'] = []
            status = 'ok'
            try:
                fn(ctx, **params)
            except C.PathInfeasible:
                status = 'infeasible'
                res['infeasible'] += 1
            except (C.Inconclusive, C.Unmodelled, hook.BudgetExceeded) as ex:
                status = 'inconclusive'
                res['inconclusive'].append(f'{type(ex).__name__}: {ex}'[:200])
            except C.SxControl as ex:
                status = 'inconclusive'
                res['inconclusive'].append(f'{type(ex).__name__}: {ex}'[:200])
            except z3_exc() as ex:
                status = 'inconclusive'
                res['inconclusive'].append(f'Z3Exception: {ex}'[:200] + ' @ ' + _where())
            except Exception as ex:
                status = 'exception'
                if not _raised_in_repo():
                    # raised by harness/oracle code without the library on the stack: a defect of the machinery
                    res['error'] = f'harness exception {type(ex).__name__}: {ex}'[:300] + ' @ ' + _where()
                    prefix = eng.next_prefix()
                    res['paths'] += 1
                    continue
                try:
                    ctx.exception(ex)
                    ctx.violations[-1:] and ctx.violations[-1].setdefault('trace', _where())
                except C.SxControl as ex2:
                    res['inconclusive'].append(f'{type(ex2).__name__} while classifying exception')
            res['paths'] += 1
            for (label, outcome, how) in ctx.obligations:
                d = res['labels'].setdefault(label, {})
                d[outcome] = d.get(outcome, 0) + 1
                res['how'][how] = res['how'].get(how, 0) + 1
                if outcome == 'inconclusive':
                    res['inconclusive'].append(f'obligation {label}: {how}')
            res['obligations'] += len(ctx.obligations)
            for v in ctx.violations:
                v = dict(v)
                v['inputs'] = {k: hex(x) for k, x in v['inputs'].items()}
                res['violations'].append(v)
            # witness of this path, validated against the untouched implementation
            if status == 'ok' and not ctx.violations and wit_budget > 0 and (res['paths'] == 1 or rnd.random() < 0.25):
                wit_budget -= 1
                try:
                    model = _interesting_model(eng, rnd)
                except C.SxControl:
                    model = None
                if model is not None:
                    inputs = ctx._inputs(model)
                    expect_obs = [[l, v] for l, v in ctx.eval_observations(model)]
                    got = concrete_run(hname, params, inputs)
                    res['witnesses'] += 1
                    bad = None
                    if got.get('error'):
                        bad = 'concrete worker error: ' + got['error']
                    elif got.get('infeasible'):
                        bad = None
                    elif got.get('exception'):
                        bad = 'concrete run raised ' + str(got.get('detail'))
                    elif got.get('failures'):
                        bad = 'concrete run fails ' + str(got['failures'][:3])
                    elif got.get('labels') != ctx.req_labels:
                        bad = 'different requirement sequence'
                    elif json.loads(json.dumps(got.get('observations'))) != json.loads(json.dumps(expect_obs)):
                        bad = 'different observations'
                    if bad and (got.get('failures') or (got.get('exception') and not str(got.get('exception')).startswith('control:'))):
                        # the untouched library fails the harness requirements on concrete inputs: a violation candidate
                        # (confirmed by the parent through a fresh replay), whatever the symbolic pass concluded
                        lab = ('witness: ' + str(got['failures'][0])) if got.get('failures') else 'witness exception:' + str(got.get('exception'))
                        res['violations'].append(dict(label=lab, inputs={k: hex(x) for k, x in inputs.items()}, known=None,
                                                      detail=str(got.get('detail') or '')[:300]))
                    elif bad:
                        res['mismatches'].append(dict(why=bad, inputs={k: hex(x) for k, x in inputs.items()},
                                                      trace=got.get('trace')))
                    if res['witness_sample'] is None:
                        res['witness_sample'] = dict(inputs={k: hex(x) for k, x in list(inputs.items())[:6]},
                                                     observations=expect_obs[:4])
            # a path the engine could not finish symbolically (unmodelled operation, solver unknown): under-approximate
            # bug finding - run the untouched library concretely on a model of the path condition reached so far
            if status in ('inconclusive', 'exception') and res.get('probe_budget', 3) > 0:
                res['probe_budget'] = res.get('probe_budget', 3) - 1
                try:
                    model = _interesting_model(eng, rnd)
                except (C.SxControl, z3_exc()):
                    model = None
                if model is not None:
                    try:
                        inputs = ctx._inputs(model)
                    except Exception:
                        inputs = None
                    if inputs is not None:
                        got = concrete_run(hname, params, inputs)
                        used = None
                        for fill in (1, 2):
                            # inputs the harness creates after the point where the symbolic path ended are not in the model: as
                            # zeros they may violate the harness's own assumptions - retry with pseudo-random values for them
                            if not got.get('infeasible'):
                                break
                            got = concrete_run(hname, params, inputs, fill=fill)
                            used = got.get('used_inputs')
                        if got.get('failures') or (got.get('exception') and not str(got.get('exception')).startswith('control:')):
                            lab = ('probe: ' + str(got['failures'][0])) if got.get('failures') else 'probe exception:' + str(got.get('exception'))
                            res['violations'].append(dict(label=lab, inputs=(used if used else {k: hex(x) for k, x in inputs.items()}), known=None,
                                                          detail=str(got.get('detail') or '')[:300]))
            prefix = eng.next_prefix()
    except _Alarm:
        res['inconclusive'].append('instance time limit')
    except BaseException as ex:   # noqa
        res['error'] = f'{type(ex).__name__}: {ex}'[:300] + '\n' + traceback.format_exc()[-1200:]
    finally:
        signal.alarm(0)
    res['stats'] = dict(eng.stats)
    res['functions'] = hook.entered()
    res['wall_s'] = round(time.time() - t0, 3)
    return res


def _interesting_model(eng, rnd):
    """a model of the path condition, nudged away from the all-zero assignment (better differential power)"""
    import z3
    cons = []
    for name, v in eng.inputs.items():
        if z3.is_bv(v):
            w = min(8, v.size())
            cons.append(z3.Extract(w - 1, 0, v) == rnd.getrandbits(w))
            if v.size() > 16:
                cons.append(z3.Extract(v.size() - 1, v.size() - 4, v) == rnd.getrandbits(4))
    eng.solver.push()
    try:
        eng.solver.set('timeout', 5000)
        # keep as many nudges as stay satisfiable, in few solver calls: all at once, else by halving (at most ~48 checks)
        budget = [48]

        def keep(cs):
            if not cs or budget[0] <= 0:
                return
            budget[0] -= 1
            eng.solver.push()
            eng.solver.add(*cs)
            if eng.solver.check() == z3.sat:
                return                       # kept (scope stays open; everything is popped in the finally clause)
            eng.solver.pop()
            if len(cs) > 1:
                keep(cs[:len(cs) // 2])
                keep(cs[len(cs) // 2:])
        keep(cons)
        if eng.solver.check() == z3.sat:
            return eng.solver.model()
    finally:
        while eng.solver.num_scopes() > 0:
            eng.solver.pop()
        eng.solver.set('timeout', 20000)
    return eng.path_model()


def z3_exc():
    import z3
    return z3.Z3Exception


def _raised_in_repo():
    tb = traceback.extract_tb(sys.exc_info()[2])
    return any(f.filename.startswith(REPO + os.sep) for f in tb)


def _where():
    tb = traceback.extract_tb(sys.exc_info()[2])
    return ' <- '.join(f'{os.path.basename(f.filename)}:{f.lineno}:{f.name}' for f in tb[-4:])


# ------------------------------------------------------------------------------- parent side
def load_known(prop):
    path = os.path.join(HERE, 'known_findings.json')
    if not os.path.exists(path):
        return []
    with open(path) as f:
        data = json.load(f)
    return [e for e in data.get('findings', []) if e.get('property') == prop]


def confirm(prop, module_name, v, tmp=True):
    """replay a counterexample on the untouched library in a fresh interpreter; returns (reproduced, path)"""
    os.makedirs(os.path.join(REPLAYS, 'tmp'), exist_ok=True)
    req = dict(property=prop, module=module_name, harness=v['harness'], params=v['params'], inputs=v['inputs'],
               label=v['label'], detail=v.get('detail'))
    digest = hashlib.sha256(json.dumps(req, sort_keys=True).encode()).hexdigest()[:12]
    path = os.path.join(REPLAYS, 'tmp', f'{prop}-{digest}.json')
    with open(path, 'w') as f:
        json.dump(req, f, indent=1)
    env = dict(os.environ)
    env['SX_REPO'] = REPO
    env['PYTHONPATH'] = HERE
    try:
        p = subprocess.run([sys.executable, '-m', 'sx.concrete', path], cwd=HERE, env=env, capture_output=True,
                           text=True, timeout=600)
    except subprocess.TimeoutExpired:
        return False, path, 'replay timed out'
    out = (p.stdout or '').strip().splitlines()
    info = out[0] if out else ''
    if p.returncode == 1:
        final = os.path.join(REPLAYS, f'{prop}-{digest}.json')
        os.replace(path, final)
        return True, final, info
    return False, path, info + (p.stderr or '')[-300:]


def check(prop, tier, jobs, only=None, limit=None, cap=None, verbose=False):
    t0 = time.time()
    seed = int(os.environ.get('VERIF_SEED', '0') or 0)
    module_name = f'harness.{prop}'
    if HERE not in sys.path:
        sys.path.insert(0, HERE)
    if REPO not in sys.path:
        sys.path.insert(0, REPO)
    mod = importlib.import_module(module_name)
    known = load_known(prop)
    open_known = [e for e in known if e.get('status') == 'open']
    insts = list(mod.instances(tier, seed))
    twins = list(mod.twins(tier, seed)) if hasattr(mod, 'twins') else []
    if only:
        insts = [i for i in insts if i[0] in only]
        twins = [i for i in twins if i[0] in only]
    if limit:
        insts = insts[:limit]
    tasks = []
    wit = getattr(mod, 'WITNESSES', {'quick': 1, 'thorough': 4})[tier]
    for (h, params) in insts:
        tasks.append(dict(idx=len(tasks), harness=h, params=params, seed=seed, twin=False, witnesses=wit,
                          known=[e for e in open_known if e.get('harness') in (h, '*')],
                          instance_timeout=getattr(mod, 'INSTANCE_TIMEOUT', {'quick': 120, 'thorough': 600})[tier]))
    n_real = len(tasks)
    for (h, params) in twins:
        tasks.append(dict(idx=len(tasks), harness=h, params=params, seed=seed, twin=True, witnesses=0, known=[],
                          instance_timeout=120))
    cap = cap or getattr(mod, 'CAP', {'quick': 280, 'thorough': 1700})[tier]
    # longest first is unknown; keep generation order but interleave so that workers stay busy
    results = [None] * len(tasks)
    ctx = mp.get_context('spawn')
    jobs = max(1, min(jobs, len(tasks)))
    pool = ctx.Pool(jobs, initializer=worker_init, initargs=(module_name,))
    timed_out = False
    try:
        chunks = 1
        it = pool.imap_unordered(run_instance, tasks, chunksize=chunks)
        done = 0
        while done < len(tasks):
            left = cap - (time.time() - t0)
            if left <= 0:
                timed_out = True
                break
            try:
                r = it.next(timeout=left)
            except mp.TimeoutError:
                timed_out = True
                break
            results[r['idx']] = r
            done += 1
    finally:
        pool.terminate()
        pool.join()

    # ---- aggregate
    agg = dict(paths=0, decisions=0, forks=0, queries=0, solver_s=0.0, obligations=0, by_rewriting=0, by_solver=0,
               inconclusive=0, infeasible_paths=0)
    functions = {}
    labels = {}
    how = {}
    inconclusive_notes = {}
    mismatches = []
    errors = []
    witnesses = 0
    cands = []
    known_seen = {}
    twin_total = twin_ok = 0
    not_run = 0
    samples = []
    distinct = set()
    for t, r in zip(tasks, results):
        if r is None:
            not_run += 1
            continue
        if t['twin']:
            twin_total += 1
            if r['violations']:
                twin_ok += 1
            else:
                errors.append(f"vacuity twin not violated: {t['harness']} {t['params']} {r.get('error') or r['inconclusive'][:2]}")
            continue
        for k in agg:
            agg[k] += r['stats'].get(k, 0)
        for f, c in r['functions'].items():
            functions[f] = functions.get(f, 0) + c
        for l, d in r['labels'].items():
            dd = labels.setdefault(_gen_label(l), {})
            for k, c in d.items():
                dd[k] = dd.get(k, 0) + c
        for k, c in r['how'].items():
            how[k] = how.get(k, 0) + c
        for note in r['inconclusive']:
            inconclusive_notes[note] = inconclusive_notes.get(note, 0) + 1
        if r['error']:
            errors.append(f"{t['harness']} {t['params']}: {r['error']}")
        for m in r['mismatches']:
            mismatches.append(dict(harness=t['harness'], params=t['params'], **m))
        witnesses += r['witnesses']
        if r['obligations'] and r['stats']['by_solver'] + r['stats']['by_rewriting'] > 0:
            distinct.add(json.dumps([t['harness'], t['params']], sort_keys=True, default=str))
        if r['witness_sample'] is not None and len(samples) < 6 and (len(samples) < 2 or r['paths'] > 1):
            samples.append(dict(harness=t['harness'], params=t['params'], paths=r['paths'],
                                obligations=r['obligations'], witness=r['witness_sample']))
        for v in r['violations']:
            v = dict(v, harness=t['harness'], params=t['params'])
            cands.append(v)

    # ---- confirm counterexamples by replay on the untouched library
    violations = []
    unconfirmed = []
    seen_new = {}
    for v in cands:
        if v.get('known'):
            key = v['known']
            st = known_seen.setdefault(key, dict(candidates=0, confirmed=None))
            st['candidates'] += 1
            if st['confirmed'] is None or (st['confirmed'] is False and st['candidates'] <= 3):
                ok, path, info = confirm(prop, module_name, v)
                st['confirmed'] = ok
                st['example'] = dict(harness=v['harness'], params=v['params'], inputs=v['inputs'], label=v['label'])
                if ok:
                    try:
                        os.remove(path)
                    except OSError:
                        pass
            continue
        key = (v['harness'], _gen_label(v['label']))
        n = seen_new.get(key, 0)
        seen_new[key] = n + 1
        if n >= 3 and any(x['key'] == key for x in violations):
            continue
        if n >= 12:
            continue
        ok, path, info = confirm(prop, module_name, v)
        if ok:
            violations.append(dict(key=key, path=path, v=v, info=info))
        else:
            unconfirmed.append(dict(harness=v['harness'], params=v['params'], label=v['label'], inputs=v['inputs'],
                                    info=info[:300]))

    wall = time.time() - t0
    discharged = agg['by_rewriting'] + agg['by_solver']
    bounds = getattr(mod, 'BOUNDS', {})
    evidence = dict(
        property_id=prop, tier=tier, seed=seed, level='model_checking',
        coverage=dict(
            states=max(agg['paths'], 0), transitions=agg['decisions'] + agg['obligations'],
            traces_validated_against_impl=witnesses,
            samples=samples or [dict(note='no witness sample recorded')],
            instances=n_real, instances_completed=n_real - not_run if not timed_out else sum(1 for r in results[:n_real] if r),
            distinct_instances_with_discharged_obligations=len(distinct),
            obligations=agg['obligations'], discharged=discharged,
            discharged_by=dict(rewriting=agg['by_rewriting'], solver=agg['by_solver'], how=how),
            inconclusive=agg['inconclusive'], inconclusive_notes=dict(list(inconclusive_notes.items())[:12]),
            forks=agg['forks'], solver_queries=agg['queries'], solver_time_s=round(agg['solver_s'], 2),
            infeasible_paths=agg['infeasible_paths'],
            obligations_by_label={k: labels[k] for k in list(labels)[:60]},
            functions_encoded=sorted(functions, key=lambda f: -functions[f])[:80],
            function_entries=sum(functions.values()),
            bounds=bounds, outside_claim=getattr(mod, 'OUTSIDE', []), stubs=getattr(mod, 'STUBS', []),
            vacuity_twins=dict(run=twin_total, violated_as_required=twin_ok),
            model_mismatches=len(mismatches), harness_errors=errors[:10],
            known_findings_seen={k: dict(confirmed=bool(v['confirmed']), candidates=v['candidates']) for k, v in known_seen.items()},
            unconfirmed_counterexamples=unconfirmed[:10],
            timed_out=timed_out, instances_not_run=not_run,
            exhaustive=False,
            explanation=getattr(mod, 'EXPLANATION', ''),
        ),
        assumptions=getattr(mod, 'ASSUMPTIONS', []),
        wall_s=round(wall, 2), violations=len(violations),
    )
    # a filtered run (--only/--limit) is a debugging aid: it must not replace the evidence of the registered command
    evid_dir = os.path.join(EVID, 'partial') if (only or limit) else EVID
    os.makedirs(evid_dir, exist_ok=True)
    with open(os.path.join(evid_dir, f'{prop}.json'), 'w') as f:
        json.dump(evidence, f, indent=1, default=str)

    # ---- report
    print(f'[{prop}/{tier}] instances={n_real} paths={agg["paths"]} obligations={agg["obligations"]} '
          f'discharged={discharged} inconclusive={agg["inconclusive"]} witnesses={witnesses} '
          f'twins={twin_ok}/{twin_total} solver_s={agg["solver_s"]:.1f} wall={wall:.1f}s')
    for e in known:
        if e.get('status') == 'open' and known_seen.get(e['class'], {}).get('confirmed'):
            print(f"KNOWN-FINDING: property={prop} {e['what']}")
    for e in known:
        if e.get('status') == 'open' and e['class'] in known_seen and not known_seen[e['class']]['confirmed']:
            print(f"NOTE: known finding {e['class']} produced a counterexample that did not reproduce")
    for m in mismatches[:5]:
        print('MODEL-MISMATCH', json.dumps(m, default=str)[:600])
    for e in errors[:8]:
        print('HARNESS-ERROR', e[:800])
    for u in unconfirmed[:5]:
        print('UNCONFIRMED', json.dumps(u, default=str)[:500])
    if verbose:
        slow = sorted((r for r in results if r), key=lambda r: -r['wall_s'])[:8]
        for r in slow:
            print(f"SLOW {r['wall_s']:.1f}s paths={r['paths']} {r['harness']} {r['params']} {r['inconclusive'][:1]}")
    if timed_out:
        print(f'INCONCLUSIVE property={prop} wall-clock cap reached, {not_run} instances not run')
    if inconclusive_notes and verbose:
        for k, c in list(inconclusive_notes.items())[:10]:
            print('INCONCLUSIVE-NOTE', c, k)
    elif agg['inconclusive'] or inconclusive_notes:
        print(f'INCONCLUSIVE property={prop} {sum(inconclusive_notes.values())} notes, e.g. {list(inconclusive_notes)[:2]}')
    shown = set()
    for v in violations:
        if v['key'] in shown:
            continue
        shown.add(v['key'])
        print(f"VIOLATION property={prop} replay={v['path']}")
        print(f"  harness={v['v']['harness']} params={v['v']['params']} label={v['v']['label']} {v['v'].get('detail') or ''}")
    if violations:
        return 1
    if discharged == 0 and not known_seen:
        print(f'VACUOUS property={prop}: nothing was decided')
        return 2
    return 0


def _gen_label(l):
    return l


def main(argv=None):
    ap = argparse.ArgumentParser()
    sub = ap.add_subparsers(dest='cmd', required=True)
    c = sub.add_parser('check')
    c.add_argument('prop')
    c.add_argument('--tier', default=os.environ.get('VERIF_TIER', 'quick'), choices=['quick', 'thorough'])
    c.add_argument('--jobs', type=int, default=int(os.environ.get('SX_JOBS', os.cpu_count() or 4)))
    c.add_argument('--only', action='append')
    c.add_argument('--limit', type=int)
    c.add_argument('--cap', type=int)
    c.add_argument('-v', action='store_true')
    r = sub.add_parser('replay')
    r.add_argument('file')
    a = ap.parse_args(argv)
    if a.cmd == 'replay':
        env = dict(os.environ)
        env['PYTHONPATH'] = HERE
        env.setdefault('SX_REPO', REPO)
        p = subprocess.run([sys.executable, '-m', 'sx.concrete', a.file], cwd=HERE, env=env)
        return p.returncode
    return check(a.prop, a.tier, a.jobs, a.only, a.limit, a.cap, a.v)


if __name__ == '__main__':
    sys.exit(main())
