#!/bin/sh
# Build the overlay interpreter used by every check: /venv's python + its site-packages + z3/cvc5 from the
# offline wheelhouse.  Idempotent; needs no network.
set -e
cd "$(dirname "$0")"
V=.venv
if [ ! -x "$V/bin/python" ] || ! "$V/bin/python" -c "import z3" 2>/dev/null; then
  rm -rf "$V"
  /venv/bin/python -m venv "$V"
  SP=$("$V/bin/python" -c "import sysconfig; print(sysconfig.get_paths()['purelib'])")
  echo "import site; site.addsitedir('/venv/lib/python3.12/site-packages')" > "$SP/zz_venv_overlay.pth"
  PIP_NO_INDEX=1 "$V/bin/pip" install -q --no-index --find-links /opt/veriftools/wheels z3-solver cvc5 >/dev/null 2>&1 || \
  PIP_NO_INDEX=1 "$V/bin/pip" install -q --no-index --find-links /opt/veriftools/wheels z3-solver
fi
"$V/bin/python" -c "import z3, bitarray; print('setup ok: z3', z3.get_version_string(), 'bitarray', bitarray.__version__)"
